"""Shared driver for the program-space properties (C01, C10, C17, C20): run a rich program under a
configuration and compare value + observation multiset with the reference evaluation."""
import asyncio
import json
import os
import tempfile
from collections import Counter
from typing import Any, Dict, List, Optional, Tuple

from hypothesis import strategies as st

from . import env  # noqa: F401
from . import prog, sched
from .prog import dec


def reference(P: Dict[str, Any], args: List[Any], run_debug: bool = False) -> Tuple[Any, Optional[BaseException], prog.Ref]:
    R = prog.Ref(run_debug=run_debug)
    try:
        return prog.ref_run(P, [dec(a) for a in args], R), None, R
    except (prog.RefError, prog.MissingArg, KeyError, IndexError) as e:
        # KeyError / IndexError: the program indexes a value with a key it does not have (generated on purpose)
        return None, e, R


def apply_config(b: prog.Built, P: Dict[str, Any], via: str) -> None:
    conf = prog.config_dict(P)
    if via == "dict":
        b.dag.config_from_dict(conf)
        return
    fd, path = tempfile.mkstemp(suffix="." + via, prefix="vlib_cfg_")
    try:
        with os.fdopen(fd, "w") as f:
            if via == "json":
                json.dump(conf, f)
            else:
                import yaml

                yaml.safe_dump(conf, f)
        if via == "json":
            b.dag.config_from_json(path)
        else:
            b.dag.config_from_yaml(path)
    finally:
        os.remove(path)


def run_config(P: Dict[str, Any], args: List[Any], cfg: Dict[str, Any]) -> Tuple[Any, Optional[BaseException], Optional[sched.Exec], Optional[prog.Built]]:
    """Build P under cfg and call it once.  Returns (value, exception, exec, built)."""
    from .env import process_env

    with process_env(log_debug=cfg.get("env") == "log_debug"):
        return _run_config(P, args, cfg)


def _run_config(P: Dict[str, Any], args: List[Any], cfg: Dict[str, Any]) -> Tuple[Any, Optional[BaseException], Optional[sched.Exec], Optional[prog.Built]]:
    import tawazi

    via = cfg.get("via", "decorator")
    old_dbg = tawazi.cfg.RUN_DEBUG_NODES
    # RUN_DEBUG_NODES is a run-time switch: its value while the DAG is being DESCRIBED must not matter
    tawazi.cfg.RUN_DEBUG_NODES = bool(cfg.get("build_debug", cfg.get("debug")))
    try:
        try:
            b = prog.build(P, is_async=bool(cfg.get("async")), mc=cfg.get("mc", 1), decorate_attrs=(via == "decorator"))
            if via != "decorator":
                apply_config(b, P, via)
            tawazi.cfg.RUN_DEBUG_NODES = bool(cfg.get("debug"))
        except BaseException as e:  # noqa: BLE001
            if isinstance(e, KeyboardInterrupt):
                raise
            return None, e, None, None
        ex = sched.Exec(cfg.get("mode", "free"), choices=cfg.get("choices", ()), sleeps=cfg.get("sleeps"))
        a = [dec(x) for x in args]
        try:
            target: Any = b.dag
            if cfg.get("derive") == "deepcopy":
                import copy as _copy

                target = _copy.deepcopy(b.dag)  # a deep copy computes what the original computes
            elif cfg.get("derive") == "executor":
                target = b.dag.executor()  # dag.executor()(*args) instead of dag(*args)
            with ex:
                if cfg.get("setup_first"):
                    # dag.setup() before the call (with or without setup nodes): the call computes the same thing
                    r0 = target.setup()
                    if asyncio.iscoroutine(r0):
                        asyncio.run(r0)
                val = asyncio.run(target(*a)) if cfg.get("async") else target(*a)
            return val, None, ex, b
        except BaseException as e:  # noqa: BLE001
            if isinstance(e, KeyboardInterrupt):
                raise
            return None, e, ex, b
    finally:
        tawazi.cfg.RUN_DEBUG_NODES = old_dbg


def same_container_kind(a: Any, b: Any) -> bool:
    """tuple stays tuple, list stays list, dict stays dict (subclasses such as namedtuple / OrderedDict count as their
    base: the DAG returns an equal plain container); everything else must have the very same type."""
    for base in (tuple, list, dict):
        if isinstance(a, base) or isinstance(b, base):
            return isinstance(a, base) and isinstance(b, base)
    return type(a) is type(b)


def obs_counter(obs: List[Any]) -> Counter:
    return Counter(repr(o) for o in obs)


def compare(res: Any, P: Dict[str, Any], args: List[Any], cfg: Dict[str, Any], ref_val: Any, R: prog.Ref, tag: str = "") -> Optional[sched.Exec]:
    val, exc, ex, b = run_config(P, args, cfg)
    ctag = f" [{tag}cfg={ {k: v for k, v in cfg.items() if k not in ('choices', 'sleeps')} } args={args}]"
    if exc is not None:
        where = "building" if ex is None else "calling"
        res.viol("error-" + where, f"{where} the DAG raised {type(exc).__name__}: {str(exc)[:300]}" + ctag)
        return ex
    foreign = prog.foreign_objects(val)
    if foreign:
        # comparing such a value with == would run tawazi's operator overloading inside the harness
        res.viol("value", f"the returned value contains tawazi objects {foreign[:3]} instead of results; reference {ref_val!r}" + ctag)
        return ex
    if val != ref_val or not same_container_kind(val, ref_val):
        res.viol("value", f"returned {val!r}, reference {ref_val!r}" + ctag)
    got = obs_counter(prog.observations(ex))  # type: ignore[arg-type]
    want = obs_counter(R.obs)
    if got != want:
        res.viol("observations", f"nodes saw {sorted((got - want).items())} instead of {sorted((want - got).items())}" + ctag)
    return ex


@st.composite
def configs(draw: Any, n: int = 3, sites: Optional[List[str]] = None, modes: Any = ("free", "free", "ctl")) -> List[Dict[str, Any]]:
    out = []
    for i in range(n):
        c: Dict[str, Any] = {"async": draw(st.booleans()), "mc": draw(st.integers(1, 5)),
                             "mode": draw(st.sampled_from(list(modes))),
                             "via": draw(st.sampled_from(["decorator", "decorator", "dict", "yaml", "json"])),
                             "debug": draw(st.booleans()), "build_debug": draw(st.booleans()),
                             "derive": draw(st.sampled_from([None, None, None, "deepcopy", "executor"])),
                             "setup_first": draw(st.sampled_from([False, False, True]))}
        if draw(st.integers(0, 7)) == 0:
            c["env"] = "log_debug"  # tawazi's logging is on, a sink listens at DEBUG level, while building and running
        if c["mode"] == "ctl":
            c["choices"] = draw(st.lists(st.integers(0, 2**16), max_size=10))
        elif sites:
            c["sleeps"] = {s: draw(st.integers(0, 3)) for s in sites if draw(st.integers(0, 2)) == 0}
        out.append(c)
    return out
