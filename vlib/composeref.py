"""Reference semantics of DAG.compose for call-only / rich top-level programs, and the real call."""
import asyncio
import warnings
from typing import Any, Dict, List, Optional, Set

from . import prog, sched
from .schedcase import Model


class Expect:
    def __init__(self) -> None:
        self.error: Optional[str] = None
        self.value: Any = None
        self.executed: List[str] = []
        self.needed: Set[str] = set()
        self.unused_inputs: List[str] = []
        self.obs: List[Any] = []


def _uses(P: Dict[str, Any]) -> Dict[str, Dict[str, Set[str]]]:
    """site -> {"sites": sites it reads, "params": params it reads} (top level, any index depth)."""
    out2site = {s["out"]: s["site"] for s in P["body"] if s["k"] == "call"}

    def roots(e: Any, acc_s: Set[str], acc_p: Set[str]) -> None:
        if e is None:
            return
        if e[0] == "v" and e[1] in out2site:
            acc_s.add(out2site[e[1]])
        elif e[0] == "p":
            acc_p.add(e[1])
        elif e[0] == "i":
            roots(e[1], acc_s, acc_p)

    u: Dict[str, Dict[str, Set[str]]] = {}
    for s in P["body"]:
        if s["k"] != "call":
            continue
        ss: Set[str] = set()
        ps: Set[str] = set()
        for e in list(s["args"]) + list(s["kwargs"].values()) + [s.get("active")]:
            roots(e, ss, ps)
        u[s["site"]] = {"sites": ss, "params": ps}
    return u


def compose_expect(P: Dict[str, Any], M: Model, inputs: Any, outputs: List[str], vals: List[Any], pre: Dict[str, Any],
                   single: bool = False, ambiguous: bool = False, run_debug: bool = True) -> Expect:
    E = Expect()
    if ambiguous:
        E.error = "ambiguous-alias"
        return E
    params = [n for n, _d in P["params"]]
    required = {n for n, d in P["params"] if d is None}
    if inputs == "...":
        inputs = list(params)
    uses = _uses(P)
    # ancestors (sites and params) of each site
    anc_s: Dict[str, Set[str]] = {}
    anc_p: Dict[str, Set[str]] = {}
    for s in M.sites:  # program order is topological
        a_s: Set[str] = set()
        a_p: Set[str] = set(uses[s]["params"])
        for d in uses[s]["sites"]:
            a_s |= {d} | anc_s[d]
            a_p |= anc_p[d]
        anc_s[s], anc_p[s] = a_s, a_p
    # input depends on input
    for a in inputs:
        for b in inputs:
            if a == b or b in params:
                continue
            if (a in params and a in anc_p[b]) or (a not in params and a in anc_s[b]):
                E.error = "input-depends-on-input"
                return E
    if len(set(inputs)) != len(inputs):
        E.error = "duplicate-input"
        return E
    # closure of the outputs, stopping at the inputs
    needed: Set[str] = set()
    inset = set(inputs)
    stack = [o for o in outputs]
    seen: Set[str] = set()
    while stack:
        s = stack.pop()
        if s in seen:
            continue
        seen.add(s)
        if s in inset:
            continue
        needed.add(s)
        for p in uses[s]["params"]:
            if p in required and p not in inset:
                E.error = "insufficient-inputs"
                return E
        stack.extend(uses[s]["sites"])
    E.needed = needed
    for a in inputs:
        desc_has_out = any((a in params and a in anc_p[o]) or (a not in params and a in anc_s[o]) for o in outputs)
        if not desc_has_out:
            E.unused_inputs.append(a)
    sub = dict(zip(inputs, vals))
    R = prog.Ref(selected=needed | {i for i in inputs if i not in params}, pre={s: v for s, v in pre.items() if s not in inset},
                 substitute=sub, run_debug=run_debug)
    prog.ref_run(P, [None] * len(required), R)  # required parameters come first; defaulted ones take their default
    vals_out = [None if R.values[o] is prog.NOTRUN else R.values[o] for o in outputs]
    E.value = vals_out[0] if single else tuple(vals_out)
    E.executed = list(R.executed)
    E.obs = list(R.obs)
    return E


def real_alias(b: prog.Built, P: Dict[str, Any], name: Any, form: str = "id") -> Any:
    if isinstance(name, dict):
        return name["lit"]
    if name in [n for n, _d in P["params"]]:
        return f"{P['name']}>!>{name}"
    nid = b.node_id(name)
    if form == "node":
        return b.dag.get_node_by_id(nid)
    if form == "tag":
        return name.lstrip(prog.MARK)
    if form == "fn":
        fn = [s for s in P["body"] if s.get("site") == name][0]["fn"]
        return b.xns[fn]
    return nid


def run_composed(b: prog.Built, P: Dict[str, Any], inputs: Any, outputs: List[Any], vals: List[Any], is_async: bool,
                 name: str = "C", single: bool = False, forms: Optional[Dict[str, str]] = None,
                 as_async: Optional[bool] = None) -> Dict[str, Any]:
    forms = forms or {}
    out: Dict[str, Any] = {}
    try:
        ins = ... if inputs == "..." else [real_alias(b, P, a, forms.get(str(a), "id")) for a in inputs]
        outs_l = [real_alias(b, P, o, forms.get(str(o), "id")) for o in outputs]
        outs: Any = outs_l[0] if single else outs_l
        with warnings.catch_warnings(record=True) as w:
            warnings.simplefilter("always")
            c = b.dag.compose(name, ins, outs, **({} if as_async is None else {"is_async": as_async}))
        out["warnings"] = [str(x.message) for x in w]
        out["composed"] = c
    except BaseException as e:  # noqa: BLE001
        if isinstance(e, KeyboardInterrupt):
            raise
        out["compose_exc"] = e
        return out
    import tawazi

    ex = sched.Exec("free")
    out["ex"] = ex
    try:
        with ex:
            if isinstance(c, tawazi.AsyncDAG):
                out["value"] = asyncio.run(c(*vals))
            else:
                out["value"] = c(*vals)
    except BaseException as e:  # noqa: BLE001
        if isinstance(e, KeyboardInterrupt):
            raise
        out["call_exc"] = e
    return out
