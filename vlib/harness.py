"""Shard-side harness: drives one check's generator with Hypothesis (or an enumerator), buckets violations,
counts what was generated, and writes a shard report.  No verdict depends on wall-clock time: the time
budget only decides when generation stops."""
import hashlib
import importlib
import json
import os
import sys
import time
import traceback
from typing import Any, Callable, Dict, List, Optional

KNOWN_FILE = os.path.join(os.path.dirname(os.path.dirname(os.path.abspath(__file__))), "KNOWN_FINDINGS.txt")


class Violation(Exception):
    """Raised inside a Hypothesis test body so that the example gets shrunk."""


class V:
    """One violated rule found in a case."""

    def __init__(self, bucket: str, msg: str, key: Optional[str] = None, detail: Any = None) -> None:
        self.bucket = bucket  # root-cause bucket: oracle rule id (+ location)
        self.msg = msg
        self.key = key  # class key used to match an open known finding
        self.detail = detail


class CaseResult:
    def __init__(self) -> None:
        self.violations: List[V] = []
        self.nontrivial = False
        self.classes: List[str] = []
        self.inconclusive: Optional[str] = None
        self.skipped: Optional[str] = None  # case was outside the fragment (counted, not evaluated)
        self.evals = 1  # executions of tawazi code this case stands for
        self.note: Any = None

    def viol(self, bucket: str, msg: str, key: Optional[str] = None, detail: Any = None) -> None:
        self.violations.append(V(bucket, msg, key, detail))

    def cls(self, *names: str) -> None:
        self.classes.extend(names)


def _tawazi_object_leak(e: BaseException) -> Optional[str]:
    """A tawazi usage error raised from tawazi's own code while the HARNESS was handling a returned value (==, repr):
    the value contains UsageExecNode / LazyExecNode objects instead of results."""
    if not type(e).__module__.startswith("tawazi"):
        return None
    tb = e.__traceback__
    frames = []
    while tb is not None:
        frames.append(tb.tb_frame.f_code.co_filename)
        tb = tb.tb_next
    if frames and "/tawazi/" in frames[-1] and any("/vlib/" in f for f in frames) and "outside of a `DAG`" in str(e):
        return f"a value returned by tawazi contains live tawazi objects: handling it in the harness raised {type(e).__name__}: {str(e)[:200]}"
    return None


def load_check(pid: str) -> Any:
    return importlib.import_module(f"vlib.checks.{pid.lower()}")


def parse_known(pid: Optional[str] = None) -> Dict[str, List[Dict[str, str]]]:
    out: Dict[str, List[Dict[str, str]]] = {"open": [], "fixed": []}
    if not os.path.exists(KNOWN_FILE):
        return out
    for line in open(KNOWN_FILE):
        line = line.strip()
        if not line or line.startswith("#"):
            continue
        status, _, rest = line.partition(":")
        status = status.strip()
        if status not in out:
            continue
        fields: Dict[str, str] = {"text": rest.strip()}
        for tokn in rest.split():
            if "=" in tokn:
                k, _, v = tokn.partition("=")
                if k in ("property", "key", "witness"):
                    fields[k] = v
        if pid is None or fields.get("property") == pid:
            out[status].append(fields)
    return out


def case_hash(case: Any) -> str:
    return hashlib.sha1(json.dumps(case, sort_keys=True, default=str).encode()).hexdigest()[:16]


class Harness:
    def __init__(self, pid: str, tier: str, seed: int, shard: int, nshards: int, seconds: float) -> None:
        self.pid, self.tier, self.seed, self.shard, self.nshards = pid, tier, seed, shard, nshards
        self.check = load_check(pid)
        self.t0 = time.monotonic()
        self.deadline = self.t0 + seconds
        self.evaluations = 0
        self.cases = 0
        self.nontrivial: set = set()
        self.classes: Dict[str, int] = {}
        self.samples: List[Any] = []
        self.inconclusive: Dict[str, int] = {}
        self.skipped: Dict[str, int] = {}
        self.known_hits: Dict[str, int] = {}
        self.failures: Dict[str, Dict[str, Any]] = {}  # bucket -> smallest failing record
        self.dups: Dict[str, int] = {}
        self.done_buckets: set = set()
        self.target: Optional[str] = None
        self.open_keys = {f.get("key") for f in parse_known(pid)["open"]}
        self.harness_errors: List[str] = []
        self.phase_info: Dict[str, Any] = {}
        self.shrinking = False

    # ------------------------------------------------------------------
    def time_left(self) -> float:
        return self.deadline - time.monotonic()

    # ------------------------------------------------------------------ guard against operations that never return
    CASE_LIMIT_S = 45.0
    LONG_LIMIT_S = 300.0

    def _start_guard(self) -> None:
        """A case normally takes milliseconds.  Executions are watched by the schedule controller's own watchdog; this
        guard covers everything else a case does with tawazi (building, selecting, composing ...): if the main thread
        is still inside one case after CASE_LIMIT_S and three samples one second apart all show it inside tawazi's
        code, ASLEEP (kernel state S) and without a single event recorded meanwhile, HangDetected is raised there, and
        the case is reported as a violation with those frames.  A thread that is computing gets LONG_LIMIT_S."""
        import ctypes
        import threading

        from . import sched

        main_ident = threading.get_ident()
        main_tid = threading.get_native_id()
        self._case_t0: Optional[float] = None
        self._guard_frames: List[str] = []

        def loop() -> None:
            while True:
                time.sleep(2.0)
                t0 = self._case_t0
                if t0 is None or time.monotonic() - t0 < self.CASE_LIMIT_S:
                    continue
                samples = []
                states = []
                progress0 = sched.PROGRESS[0]
                for _ in range(3):
                    fr = sys._current_frames().get(main_ident)
                    import traceback as tb

                    frames = [f"{f.filename}:{f.lineno}:{f.name}" for f in tb.extract_stack(fr)] if fr else []
                    samples.append(frames)
                    try:
                        with open(f"/proc/self/task/{main_tid}/stat") as f_:
                            states.append(f_.read().rsplit(")", 1)[1].split()[0])
                    except Exception:  # noqa: BLE001
                        states.append("?")
                    time.sleep(1.0)
                if self._case_t0 != t0:
                    continue  # the case ended meanwhile
                # slow is not hung: no verdict while the execution under observation records events, nor while the
                # thread is computing (kernel state R) - unless it has been at it for LONG_LIMIT_S
                stuck = sched.PROGRESS[0] == progress0 and (all(st_ == "S" for st_ in states)
                                                          or time.monotonic() - t0 > self.LONG_LIMIT_S)
                if stuck and all(any("/tawazi/" in f for f in s[-8:]) for s in samples):
                    self._guard_frames = samples[-1][-6:]
                    sched.LAST_GUARD_FRAMES = list(self._guard_frames)
                    self._case_t0 = None
                    ctypes.pythonapi.PyThreadState_SetAsyncExc(ctypes.c_ulong(main_ident), ctypes.py_object(sched.HangDetected))

        threading.Thread(target=loop, name="vlib-case-guard", daemon=True).start()
        self._guard_started = True

    def guarded_apply(self, fn: Callable[..., Any], *a: Any) -> Any:
        """Run one history operation (state machines) under the same guard; a hang becomes a finding of that step."""
        from . import sched

        if not getattr(self, "_guard_started", False):
            self._start_guard()
        self._case_t0 = time.monotonic()
        try:
            return fn(*a)
        except sched.HangDetected:
            return [("hang-in-tawazi", f"the operation had not returned after {self.CASE_LIMIT_S:.0f}s and the thread was inside tawazi in three samples one second apart: {self._guard_frames}")]
        except KeyError as e:
            from .prog import TagResolutionError

            if isinstance(e, TagResolutionError):
                return [("tag-resolution", f"get_nodes_by_tag(<tag carried by exactly one call site>) did not return exactly that node: {e}")]
            raise
        finally:
            self._case_t0 = None

    def one(self, case: Any, raise_on_violation: bool = False) -> Optional[CaseResult]:
        """Evaluate one generated case.  Returns its result (None if the run-time budget is exhausted)."""
        if self.time_left() <= 0 and self.target is None:
            return None
        from . import sched

        if not getattr(self, "_guard_started", False):
            self._start_guard()
        self._case_t0 = time.monotonic()
        try:
            res: CaseResult = self.check.run_case(case)
        except sched.HangDetected:
            # raised by the guard above: a tawazi operation of this case did not return
            self._case_t0 = None
            res = CaseResult()
            res.viol("hang-in-tawazi", f"an operation of this case had not returned after {self.CASE_LIMIT_S:.0f}s and the thread was inside tawazi in three samples one second apart: {self._guard_frames}")
            return self.record(case, res, False)
        except Exception as e:
            leak = _tawazi_object_leak(e)
            if leak:
                # not a harness fault: a value handed back by tawazi still contains live tawazi objects (comparing
                # or printing it ran tawazi's operator overloading, which raised)
                self._case_t0 = None
                res = CaseResult()
                res.viol("tawazi-object-in-result", leak)
                return self.record(case, res, False)
            from .prog import TagResolutionError

            if isinstance(e, TagResolutionError):
                self._case_t0 = None
                res = CaseResult()
                res.viol("tag-resolution", f"get_nodes_by_tag(<tag carried by exactly one call site>) did not return exactly that node: {e}")
                return self.record(case, res, False)
            # the harness itself broke: never reported as a property violation
            msg = traceback.format_exc()
            if len(self.harness_errors) < 5:
                self.harness_errors.append(msg + "\nCASE: " + json.dumps(case, default=str)[:4000])
            raise
        finally:
            self._case_t0 = None
        return self.record(case, res, raise_on_violation)

    def record(self, case: Any, res: CaseResult, raise_on_violation: bool = False) -> Optional[CaseResult]:
        """Account for an evaluated case (also used by state machines, which evaluate while generating)."""
        self.cases += 1
        if res.skipped:
            self.skipped[res.skipped] = self.skipped.get(res.skipped, 0) + 1
            return res
        self.evaluations += res.evals
        for c in res.classes:
            self.classes[c] = self.classes.get(c, 0) + 1
        if res.inconclusive:
            self.inconclusive[res.inconclusive] = self.inconclusive.get(res.inconclusive, 0) + 1
            dump = os.environ.get("VERIF_DUMP_INCONCLUSIVE")  # debugging aid: directory that receives those cases
            if dump:
                with open(os.path.join(dump, f"{self.pid}-{self.shard}-{self.cases}.json"), "w") as f_:
                    json.dump({"case": case, "why": res.inconclusive}, f_, default=str)
        if res.nontrivial:
            h = case_hash(case)
            if h not in self.nontrivial:
                self.nontrivial.add(h)
                if len(self.samples) < 3:
                    self.samples.append({"case": case, "note": res.note})
        elif not self.samples and res.note is not None:
            pass
        to_raise: Optional[V] = None
        for v in res.violations:
            if v.key is not None and v.key in self.open_keys:
                self.known_hits[v.key] = self.known_hits.get(v.key, 0) + 1
                continue
            if v.bucket in self.done_buckets:
                self.dups[v.bucket] = self.dups.get(v.bucket, 0) + 1
                continue
            # every attempt on a hanging case costs the stall time: such cases are reported unshrunk
            shrinkable = not v.bucket.startswith("hang") and "HangDetected" not in v.msg
            if self.target is None and raise_on_violation and shrinkable:
                self.target = v.bucket
            if not raise_on_violation or v.bucket == self.target or not shrinkable:
                rec = {"bucket": v.bucket, "msg": v.msg, "key": v.key, "case": case, "detail": v.detail}
                size = len(json.dumps(case, default=str))
                old = self.failures.get(v.bucket)
                if old is None or size <= old["size"]:
                    rec["size"] = size
                    self.failures[v.bucket] = rec
                if raise_on_violation and to_raise is None and shrinkable:
                    to_raise = v
                if not shrinkable:
                    self.done_buckets.add(v.bucket)
            else:
                self.dups[v.bucket] = self.dups.get(v.bucket, 0) + 1
        if to_raise is not None:
            raise Violation(f"{to_raise.bucket}: {to_raise.msg}")
        return res

    # ------------------------------------------------------------------
    def run_hypothesis(self, strategy_fn: Callable[[str], Any], batch: int = 200, max_total: Optional[int] = None) -> None:
        import hypothesis
        from hypothesis import HealthCheck, Phase, given, settings

        total = 0
        b = 0
        while self.time_left() > 0 and (max_total is None or total < max_total):
            n = batch if max_total is None else min(batch, max_total - total)
            bseed = (self.seed * 1000003 + self.shard * 7919 + b * 104729) % (2**63)
            b += 1
            self.target = None
            before = self.cases

            @hypothesis.seed(bseed)
            @settings(
                max_examples=n,
                database=None,
                deadline=None,
                derandomize=False,
                report_multiple_bugs=False,
                suppress_health_check=list(HealthCheck),
                phases=[Phase.generate, Phase.shrink],
                print_blob=False,
            )
            @given(strategy_fn(self.tier))
            def t(case: Any) -> None:
                self.one(case, raise_on_violation=True)

            try:
                t()
            except Violation:
                pass
            except BaseException as e:  # Flaky, harness errors, ...
                if self.target is None and not isinstance(e, KeyboardInterrupt):
                    if not self.harness_errors:
                        self.harness_errors.append(traceback.format_exc())
                    break
                if isinstance(e, KeyboardInterrupt):
                    raise
            if self.target is not None:
                self.done_buckets.add(self.target)
                self.target = None
            total += max(self.cases - before, 1)

    def run_machine(self, machine_factory: Callable[[], Any], batch: int = 50, steps: int = 25) -> None:
        """Drive a Hypothesis RuleBasedStateMachine class (built by machine_factory for this harness)."""
        import hypothesis
        from hypothesis import HealthCheck, Phase, settings
        from hypothesis.stateful import run_state_machine_as_test

        b = 0
        while self.time_left() > 0:
            bseed = (self.seed * 1000003 + self.shard * 7919 + b * 104729 + 17) % (2**63)
            b += 1
            self.target = None
            M = hypothesis.seed(bseed)(machine_factory())
            try:
                run_state_machine_as_test(
                    M,
                    settings=settings(
                        max_examples=batch,
                        stateful_step_count=steps,
                        database=None,
                        deadline=None,
                        derandomize=False,
                        report_multiple_bugs=False,
                        suppress_health_check=list(HealthCheck),
                        phases=[Phase.generate, Phase.shrink],
                        print_blob=False,
                    ),
                )
            except Violation:
                pass
            except BaseException as e:  # noqa: BLE001
                if isinstance(e, KeyboardInterrupt):
                    raise
                if self.target is None:
                    if not self.harness_errors:
                        self.harness_errors.append(traceback.format_exc())
                    break
            if self.target is not None:
                self.done_buckets.add(self.target)
                self.target = None

    # ------------------------------------------------------------------
    def report(self) -> Dict[str, Any]:
        return {
            "optimize": sys.flags.optimize,
            "pid": self.pid,
            "shard": self.shard,
            "seed": self.seed,
            "cases": self.cases,
            "evaluations": self.evaluations,
            "nontrivial": sorted(self.nontrivial),
            "classes": self.classes,
            "samples": self.samples,
            "inconclusive": self.inconclusive,
            "skipped": self.skipped,
            "known_hits": self.known_hits,
            "failures": self.failures,
            "dups": self.dups,
            "harness_errors": self.harness_errors,
            "phase_info": self.phase_info,
            "wall_s": round(time.monotonic() - self.t0, 2),
        }


def shard_main(argv: List[str]) -> int:
    import argparse

    ap = argparse.ArgumentParser()
    ap.add_argument("pid")
    ap.add_argument("--tier", default="quick")
    ap.add_argument("--seed", type=int, default=1)
    ap.add_argument("--shard", type=int, default=0)
    ap.add_argument("--nshards", type=int, default=1)
    ap.add_argument("--seconds", type=float, default=30)
    ap.add_argument("--out", required=True)
    a = ap.parse_args(argv)
    H = Harness(a.pid, a.tier, a.seed, a.shard, a.nshards, a.seconds)
    rc = 0
    try:
        H.check.run_shard(H)
    except BaseException:
        H.harness_errors.append(traceback.format_exc())
        rc = 2
    rep = H.report()
    with open(a.out, "w") as f:
        json.dump(rep, f, default=str)
    if H.harness_errors:
        rc = 2
    sys.stdout.flush()
    if os.environ.get("VERIF_COVERAGE"):  # tools/coverage_report.sh: os._exit skips coverage's atexit hook
        import coverage

        cov = coverage.Coverage.current()
        if cov is not None:
            cov.stop()
            cov.save()
    # worker threads of pools that tawazi never shuts down must not keep the process alive
    os._exit(rc)


if __name__ == "__main__":
    shard_main(sys.argv[1:])
