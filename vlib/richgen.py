"""Hypothesis strategy for the full describing-function fragment (typed, bottom-up, acyclic by construction).

A light type system keeps programs inside the documented fragment without rejection sampling:
operators only on ints that cannot be None, indexing only where the producer's shape has the key,
description-level tuples (unpack_to / nested-DAG returns) are never passed whole to a node.
"""
from typing import Any, Dict, List, Optional, Tuple

from hypothesis import strategies as st

from .prog import MARK, Mask, enc

# Mask: a user object whose truth value differs from "len() > 0" (what an array holding a single zero looks like)
ANY_POOL = [0, 1, 2, "", "x", None, True, False, (), (0,), (1, 2), {"a": 0}, {}, [], [0], Mask(False, 1), Mask(True, 0)]
FLAG_CONSTS = [True, False, 0, 1, "", "x", None, Mask(False, 1), Mask(True, 0)]


class Ty:
    """kind: term | int | any | tup | list | dict ; elems for containers; desc = exists only at description
    level (python tuple/list/dict of results); none = may be None at run time."""

    def __init__(self, kind: str, elems: Any = None, desc: bool = False, none: bool = False, setupv: bool = False) -> None:
        self.kind, self.elems, self.desc, self.none, self.setupv = kind, elems, desc, none, setupv

    def keys(self) -> List[Any]:
        if self.kind in ("tup", "list"):
            return list(range(len(self.elems)))
        if self.kind == "dict":
            return list(self.elems)
        if self.kind == "grid":
            return [(0, 1), (1, 0)]  # tuple keys: g[0, 1]
        return []

    def at(self, k: Any) -> "Ty":
        if self.kind == "grid":
            return TERM_T
        return self.elems[k]


TERM = Ty("term")
TERM_T = TERM
INT = Ty("int")
DICT_T = Ty("dict", {"a": TERM, "b": Ty("list", [TERM, Ty("tup", [TERM, TERM])])})


class Ctx:
    def __init__(self) -> None:
        self.site = 0
        self.prog = 0
        self.features: set = set()
        self.bad_index = False

    def next_site(self) -> str:
        s = f"{MARK}s{self.site}"
        self.site += 1
        return s

    def next_prog(self) -> str:
        n = f"D{self.prog}"
        self.prog += 1
        return n


class Env:
    def __init__(self, no_index: bool = False) -> None:
        self.vals: List[Tuple[Any, Ty]] = []  # (expr, type)
        self.no_index = no_index

    def add(self, e: Any, t: Ty) -> None:
        self.vals.append((e, t))

    def leaves(self, pred: Any, depth: int = 3) -> List[Tuple[Any, Ty]]:
        """All expressions (with index chains) reachable from bound names whose type satisfies pred."""
        out: List[Tuple[Any, Ty]] = []
        if self.no_index:
            depth = 0

        def walk(e: Any, t: Ty, d: int) -> None:
            if pred(t):
                out.append((e, t))
            if d > 0 and not t.none:
                for k in t.keys():
                    walk(["i", e, k], t.at(k), d - 1)

        for e, t in self.vals:
            walk(e, t, depth)
        return out


def _is_value(t: Ty) -> bool:  # can be passed to a node / used as a flag
    return not t.desc


def _is_int(t: Ty) -> bool:
    return t.kind == "int" and not t.none and not t.desc


def _is_bool(t: Ty) -> bool:
    return t.kind == "bool" and not t.none and not t.desc


def _root(e: Any) -> Any:
    while e[0] == "i":
        e = e[1]
    return e


def _n_idx(e: Any) -> int:
    n = 0
    while e[0] == "i":
        n += 1
        e = e[1]
    return n


@st.composite
def _operand(draw: Any, env: Env, cx: Ctx, pred: Any = _is_value, const_pool: Any = ANY_POOL, p_const: float = 0.25) -> Tuple[Any, Ty]:
    cands = env.leaves(pred)
    if not cands or draw(st.floats(0, 1)) < p_const:
        v = draw(st.sampled_from(const_pool))
        return ["c", enc(v)], Ty("int" if isinstance(v, int) and not isinstance(v, bool) else "any", none=v is None)
    e, t = draw(st.sampled_from(cands))
    if _n_idx(e) >= 2:
        cx.features.add("index-chain")
    elif _n_idx(e) == 1:
        cx.features.add("index")
    if cx.bad_index and e[0] == "i" and not isinstance(e[2], (tuple, list)) and not cx.features & {"bad-index"} \
            and draw(st.sampled_from([True] + [False] * 11)):
        # the user's own indexing mistake: a key the producer's value does not have.  Plain Python raises
        # KeyError / IndexError, so the DAG call must raise as well (it must not hand None to the consumer).
        e = ["i", e[1], "zz" if isinstance(e[2], str) else 7]
        cx.features.add("bad-index")
    return e, t


@st.composite
def _flag(draw: Any, env: Env, cx: Ctx) -> Any:
    """An activation flag expression of one of the documented forms."""
    form = draw(st.sampled_from(["const", "value", "value", "indexed", "indexed"]))
    if form == "const":
        cx.features.add("flag-const")
        return ["c", enc(draw(st.sampled_from(FLAG_CONSTS)))]
    cands = env.leaves(_is_value)
    if form == "indexed":
        ind = [(e, t) for e, t in cands if e[0] == "i"]
        if ind:
            cx.features.add("flag-indexed")
            return draw(st.sampled_from(ind))[0]
    plain = [(e, t) for e, t in cands if e[0] != "i"]
    if plain:
        e, t = draw(st.sampled_from(plain))
        cx.features.add("flag-param" if e[0] == "p" else "flag-result")
        return e
    cx.features.add("flag-const")
    return ["c", enc(draw(st.sampled_from(FLAG_CONSTS)))]


@st.composite
def rich_prog(
    draw: Any,
    cx: Optional[Ctx] = None,
    depth: int = 2,
    max_stmts: int = 8,
    flags: bool = True,
    inner: bool = False,
    resources: Any = ("thread", "async-thread", "main-thread"),
    setup_ok: bool = True,
    allow_flag_stmts: bool = True,
    attrs: bool = True,
    no_index: bool = False,
    flag_w: int = 4,
    sub_w: int = 2,
    debug_w: int = 0,
    split_w: int = 0,
    seqop_w: int = 0,
) -> Dict[str, Any]:
    """no_index: the program will be called with twz_active as a nested DAG; then nothing inside it may index
    or unpack a node result (a deactivated result is None, and None[0] raises in plain Python as well)."""
    cx = cx or Ctx()
    name = cx.next_prog()
    env = Env(no_index)
    # ---- parameters
    n_req = draw(st.integers(0, 2))
    n_def = draw(st.integers(0, 2))
    params: List[Any] = []
    ptypes: List[str] = []
    for i in range(n_req + n_def):
        pt = draw(st.sampled_from(["int", "any", "any"]))
        ptypes.append(pt)
        d = None
        if i >= n_req:
            dv = draw(st.integers(1, 6)) if pt == "int" else draw(st.sampled_from(ANY_POOL))
            d = {"d": enc(dv)}
        params.append([f"p{i}", d])
        # an "any" parameter may hold None / containers: never indexed, never used in arithmetic
        env.add(["p", f"p{i}"], Ty("int") if pt == "int" else Ty("any", none=True))
    fns: Dict[str, Any] = {}
    body: List[Any] = []
    nout = [0]

    def out() -> str:
        nout[0] += 1
        return f"v{nout[0] - 1}"

    def new_fn(kind: str, **extra: Any) -> str:
        fn = f"f{len(fns)}"
        spec: Dict[str, Any] = {"kind": kind, "res": draw(st.sampled_from(list(resources)))}
        if attrs:
            spec["prio"] = draw(st.integers(-2, 3))
            if draw(st.integers(0, 5)) == 0:
                spec["seq"] = True
        if draw(st.sampled_from([True, False, False, False])):
            spec["qual"] = f"mk.<locals>.{fn}"  # a function defined inside another function
        if draw(st.integers(0, 11)) == 0:
            spec["partial"] = True  # the node function is a functools.partial object
        spec.update(extra)
        fns[fn] = spec
        return fn

    n_stmts = draw(st.integers(1, max_stmts))
    # setup sites first
    setups: List[Tuple[Any, Ty]] = []
    if setup_ok and draw(st.integers(0, 3)) == 0:
        for _ in range(draw(st.integers(1, 2))):
            fn = new_fn("term", setup=True)
            args = [["c", enc(draw(st.sampled_from([1, "m", (1, 2)])))]]
            if setups and draw(st.booleans()):
                args.append(setups[-1][0])
            o = out()
            body.append({"k": "call", "fn": fn, "site": cx.next_site(), "mark": True, "args": args, "kwargs": {},
                         "active": None, "unpack": None, "tags": [], "out": o})
            setups.append((["v", o], TERM))
            env.add(["v", o], Ty("term", setupv=True))
            cx.features.add("setup")
    used_sub = False
    for _ in range(n_stmts):
        kinds = ["call"] * 5 + ["op"] * 2 + ["logic"]
        if depth > 0:
            kinds += ["sub"] * sub_w
        kinds += ["debug"] * debug_w
        if flags and allow_flag_stmts and not no_index:
            kinds += ["split"] * split_w
        if not no_index:
            kinds += ["seqop"] * seqop_w
        k = draw(st.sampled_from(kinds))
        if k == "seqop":
            # operators on values for which they are NOT commutative: tuple / str concatenation, dict union
            seqs = env.leaves(lambda t: not t.desc and not t.none and t.kind in ("tup", "dict", "str"), depth=0)
            if not seqs:
                fn = new_fn(draw(st.sampled_from(["tup", "dict", "str"])), **({"n": 2, "unpack": None}))
                o = out()
                body.append({"k": "call", "fn": fn, "site": cx.next_site(), "mark": True, "args": [], "kwargs": {},
                             "active": None, "unpack": None, "tags": [], "out": o})
                t0 = {"tup": Ty("tup", [TERM] * 2), "dict": Ty("dict", DICT_T.elems), "str": Ty("str")}[fns[fn]["kind"]]
                env.add(["v", o], t0)
                seqs = [(["v", o], t0)]
            a, ta = draw(st.sampled_from(seqs))
            same = [e for e, t in seqs if t.kind == ta.kind]
            if draw(st.booleans()):
                b: Any = draw(st.sampled_from(same))
            elif ta.kind == "tup":
                b = ["c", enc(draw(st.sampled_from([(1,), (0, "x"), ()])))]
            elif ta.kind == "dict":
                b = ["c", enc(draw(st.sampled_from([{"a": 0, "z": 1}, {"b": 2}, {}])))]
            else:
                b = ["c", draw(st.sampled_from(["<", "ab", ""]))]
            if b[0] == "c" and draw(st.booleans()):
                a, b = b, a  # the constant on the left: tawazi's reflected operator has to swap the operands back
                cx.features.add("reflected")
            o = out()
            body.append({"k": "op", "op": "or" if ta.kind == "dict" else "add", "a": a, "b": b, "out": o})
            cx.features.add("seq-operator")
            env.add(["v", o], Ty("any"))
            continue
        if k == "split":
            # two calls flagged by two different parts of ONE value, the parts being truthy / falsy independently;
            # the second flagged call also consumes the first one's result and another, unflagged value
            fnp = new_fn("pack")
            pa = [draw(_operand(env, cx, const_pool=FLAG_CONSTS, p_const=0.7)) for _i in range(2)]
            unp = 2 if draw(st.booleans()) else None
            o = out()
            hollow = unp is None and draw(st.sampled_from([True, False, False]))
            if hollow:
                # the value is a FALSY container whose parts can still be read (prog.Hollow); only the two flags use it
                fns[fnp]["kind"] = "hpack"
            body.append({"k": "call", "fn": fnp, "site": cx.next_site(), "mark": True, "args": [e for e, _ in pa],
                         "kwargs": {}, "active": None, "unpack": unp, "tags": [], "out": o})
            if not hollow:
                env.add(["v", o], Ty("tup", [t for _, t in pa], desc=unp is not None))
            if unp:
                cx.features.add("unpack")
            prev: Any = None
            for idx in (draw(st.sampled_from([(0, 1), (1, 0)]))):
                fn = new_fn("term")
                args2 = [draw(_operand(env, cx))[0] for _i in range(draw(st.integers(0, 1)))]
                if prev is not None and draw(st.booleans()):
                    args2.append(prev)
                o2 = out()
                body.append({"k": "call", "fn": fn, "site": cx.next_site(), "mark": True, "args": args2, "kwargs": {},
                             "active": ["i", ["v", o], idx], "unpack": None, "tags": [], "out": o2})
                env.add(["v", o2], Ty("term", none=True))
                prev = ["v", o2]
            cx.features.update({"flag", "flag-indexed", "flag-split"})
            continue
        if k == "op" and not env.leaves(_is_int):
            k = "call"
        if k == "debug":
            # a debug node: consumes values, nothing consumes it (it only runs when RUN_DEBUG_NODES is on)
            fn = new_fn("term", debug=True)
            dargs = [draw(_operand(env, cx))[0] for _i in range(draw(st.integers(0, 2)))]
            body.append({"k": "call", "fn": fn, "site": cx.next_site(), "mark": True, "args": dargs, "kwargs": {},
                         "active": None, "unpack": None, "tags": [], "out": out()})
            cx.features.add("debug-node")
            continue
        if k == "call":
            # reuse an existing function sometimes
            reusable = [f for f, s in fns.items() if not s.get("setup") and not s.get("debug") and s["kind"] in ("term", "int", "tup", "dict")
                        and not (no_index and s.get("unpack"))]
            if reusable and draw(st.integers(0, 3)) == 0:
                fn = draw(st.sampled_from(reusable))
                cx.features.add("reuse")
            else:
                kind = draw(st.sampled_from(["term", "term", "int", "tup", "dict", "id", "pack"] + (["str", "grid"] if seqop_w else [])))
                if kind == "tup":
                    n = draw(st.integers(2, 3))
                    unp = n if (draw(st.booleans()) and not no_index) else None
                    fn = new_fn("tup", n=n, unpack=unp)
                else:
                    fn = new_fn(kind)
            spec = fns[fn]
            kind = spec["kind"]
            args: List[Any] = []
            kwargs: Dict[str, Any] = {}
            tys: List[Ty] = []
            if kind == "id":
                e, t = draw(_operand(env, cx))
                args, tys = [e], [t]
            elif kind == "pack":
                for _i in range(2):
                    e, t = draw(_operand(env, cx))
                    args.append(e)
                    tys.append(t)
            else:
                for _i in range(draw(st.integers(0, 3))):
                    e, t = draw(_operand(env, cx))
                    if draw(st.integers(0, 3)) == 0:
                        kwargs[f"k{len(kwargs)}"] = e
                        cx.features.add("kwarg")
                    else:
                        args.append(e)
            active = None
            unpack_call = None
            if kind == "pack" and draw(st.integers(0, 2)) == 0 and not no_index:
                unpack_call = 2  # twz_unpack_to at the call site
            flagged = flags and allow_flag_stmts and draw(st.integers(0, flag_w)) == 0
            if flagged and not (kind == "tup" and spec.get("unpack")) and unpack_call is None:
                active = draw(_flag(env, cx))
                cx.features.add("flag")
            o = out()
            body.append({"k": "call", "fn": fn, "site": cx.next_site(), "mark": True, "args": args, "kwargs": kwargs,
                         "active": active, "unpack": unpack_call, "tags": [], "out": o})
            maybe_none = active is not None
            if kind == "term" or kind == "bomb":
                t = Ty("term", none=maybe_none)
            elif kind == "int":
                t = Ty("int", none=maybe_none)
            elif kind == "tup":
                t = Ty("tup", [TERM] * spec["n"], desc=bool(spec.get("unpack")), none=maybe_none)
                if spec.get("unpack"):
                    cx.features.add("unpack")
            elif kind == "dict":
                t = Ty("dict", DICT_T.elems, none=maybe_none)
            elif kind == "str":
                t = Ty("str", none=maybe_none)
            elif kind == "grid":
                t = Ty("grid", none=maybe_none)
                cx.features.add("tuple-key-container")
            elif kind == "id":
                t = Ty(tys[0].kind, tys[0].elems, none=tys[0].none or maybe_none)
            elif kind == "pack":
                t = Ty("tup", tys, desc=unpack_call is not None, none=maybe_none)
                if unpack_call:
                    cx.features.add("unpack")
            else:
                t = Ty("any", none=True)
            env.add(["v", o], t)
        elif k == "op" and draw(st.integers(0, 3)) == 0:
            # operators applied to run-time bools (results of comparisons): ~True is -2, True + True is 2 ...
            if not env.leaves(_is_bool, depth=0) or draw(st.booleans()):
                ia = draw(st.sampled_from(env.leaves(_is_int)))[0]
                ib = draw(st.sampled_from(env.leaves(_is_int)))[0] if draw(st.booleans()) else ["c", draw(st.integers(1, 6))]
                oc = out()
                body.append({"k": "op", "op": draw(st.sampled_from(["lt", "le", "eq", "ne", "gt", "ge"])), "a": ia, "b": ib, "out": oc})
                env.add(["v", oc], Ty("bool"))
            bools = env.leaves(_is_bool, depth=0)
            a, _ta = draw(st.sampled_from(bools))
            opname = draw(st.sampled_from(["invert", "invert", "neg", "pos", "abs", "add", "mul", "and", "or", "xor", "eq", "ne", "sub"]))
            o = out()
            cx.features.update({"operator", "bool-operand"})
            if opname in ("invert", "neg", "pos", "abs"):
                body.append({"k": "op", "op": opname, "a": a, "b": None, "out": o})
            else:
                b = draw(st.sampled_from(bools))[0] if draw(st.booleans()) else ["c", draw(st.sampled_from([True, False, 1, 2, 5]))]
                if b[0] == "c" and draw(st.booleans()):
                    a, b = b, a
                    cx.features.add("reflected")
                body.append({"k": "op", "op": opname, "a": a, "b": b, "out": o})
            env.add(["v", o], Ty("any"))
        elif k == "op":
            ints = env.leaves(_is_int)
            a, _ta = draw(st.sampled_from(ints))
            opname = draw(st.sampled_from(["add", "sub", "mul", "floordiv", "mod", "truediv", "pow", "lshift", "rshift",
                                           "and", "or", "xor", "lt", "le", "eq", "ne", "gt", "ge", "neg", "pos", "abs",
                                           "invert", "divmod"]))
            o = out()
            cx.features.add("operator")
            if opname in ("neg", "pos", "abs", "invert"):
                body.append({"k": "op", "op": opname, "a": a, "b": None, "out": o})
                env.add(["v", o], Ty("any"))
                continue
            if opname in ("pow", "lshift", "rshift"):
                b: Any = ["c", draw(st.integers(0, 3))]
            elif draw(st.booleans()):
                b = draw(st.sampled_from(ints))[0]
            else:
                b = ["c", draw(st.integers(1, 6))]
            if b[0] == "c" and draw(st.booleans()) and opname not in ("pow", "lshift", "rshift"):
                a, b = b, a  # reflected form: constant on the left
                cx.features.add("reflected")
            body.append({"k": "op", "op": opname, "a": a, "b": b, "out": o})
            # results of arithmetic may be 0 / negative / float: not fed to further arithmetic; comparisons give bools
            env.add(["v", o], Ty("bool") if opname in ("lt", "le", "eq", "ne", "gt", "ge") else Ty("any"))
        elif k == "logic":
            opname = draw(st.sampled_from(["and_", "or_", "not_"]))
            n = 1 if opname == "not_" else 2
            ops = [draw(_operand(env, cx))[0] for _ in range(n)]
            o = out()
            body.append({"k": "logic", "op": opname, "args": ops, "out": o})
            cx.features.add("logic")
            env.add(["v", o], Ty("any", none=True))
        elif k == "sub":
            sub_flag = flags and allow_flag_stmts and draw(st.integers(0, max(1, flag_w - 1))) == 0
            sp = draw(rich_prog(cx=cx, depth=depth - 1, max_stmts=max(2, max_stmts // 2), flags=flags and not sub_flag,
                                inner=True, resources=resources, setup_ok=setup_ok, attrs=attrs,
                                allow_flag_stmts=allow_flag_stmts and not sub_flag, no_index=no_index or sub_flag,
                                flag_w=flag_w, sub_w=sub_w, debug_w=debug_w, split_w=split_w, seqop_w=seqop_w))
            if draw(st.integers(0, 5)) == 0 and not any(b_["k"] == "sub" and b_["prog"]["name"] == name for b_ in body):
                # DAGs made by one factory function share their qualified name: the nested DAG is called like the DAG
                # it is nested in (its ids are prefixed all the same, and its parameters stay its own)
                sp["name"] = name
                cx.features.add("nested-same-qualname")
            n_par = len(sp["params"])
            n_required = sum(1 for _n, d in sp["params"] if d is None)
            n_given = draw(st.integers(n_required, n_par))
            args = []
            for i in range(n_given):
                if sp["_ptypes"][i] == "int":
                    ints = env.leaves(_is_int)
                    if ints and draw(st.booleans()):
                        args.append(draw(st.sampled_from(ints))[0])
                    else:
                        args.append(["c", draw(st.integers(1, 6))])
                else:
                    args.append(draw(_operand(env, cx))[0])
                if sp["params"][i][1] is not None:
                    cx.features.add("sub-explicit-default")
            active = draw(_flag(env, cx)) if sub_flag else None
            if sub_flag:
                cx.features.add("flag-on-sub")
            o = out()
            rt: Ty = sp.pop("_rtype")
            sp.pop("_ptypes")
            body.append({"k": "sub", "prog": sp, "args": args, "active": active, "out": o})
            cx.features.add("nested")
            if depth - 1 > 0 and any(s["k"] == "sub" for s in sp["body"]):
                cx.features.add("nested-2")
            env.add(["v", o], _with_none(rt, sub_flag))
            used_sub = True
    # ---- return
    vals = env.leaves(lambda t: True, depth=2)
    if inner:
        # a nested DAG returns node results only: no constants, not None, no pass-through of its own parameters
        # (a defaulted parameter is a constant), no setup values (they survive deactivation)
        # ... except a REQUIRED parameter handed back as it is: every call site supplies it, and what a deactivated
        # nested DAG hands back for it is None like every other output
        required_ = {n_ for n_, d_ in params if d_ is None}
        pool = [(e, t) for e, t in vals if not t.setupv and not t.desc
                and (_root(e)[0] != "p" or (e[0] == "p" and e[1] in required_))]
        if not pool:
            fn = new_fn("term")
            o = out()
            body.append({"k": "call", "fn": fn, "site": cx.next_site(), "mark": True, "args": [], "kwargs": {},
                         "active": None, "unpack": None, "tags": [], "out": o})
            pool = [(["v", o], TERM)]
    else:
        pool = [(e, t) for e, t in vals if not t.desc]
    shape = draw(st.sampled_from(["x", "T", "T", "L", "D"] + ([] if inner else ["none"])))
    if not pool:
        shape = "x" if inner else "none"
    if shape == "none":
        ret: Any = None
        rtype = Ty("any", none=True)
    elif shape == "x":
        if not pool:
            # inner program without any value: create one call
            fn = new_fn("term")
            o = out()
            body.append({"k": "call", "fn": fn, "site": cx.next_site(), "mark": True, "args": [], "kwargs": {},
                         "active": None, "unpack": None, "tags": [], "out": o})
            pool = [(["v", o], TERM)]
        # `return inner(x)` / `return a_b` (an unpacked pair): a description-level container handed back whole
        whole = [(e_, t_) for e_, t_ in env.vals if t_.desc and not t_.none and t_.kind in ("tup", "list", "dict")
                 and all(not x.desc and not (inner and x.setupv) for x in (t_.elems.values() if t_.kind == "dict" else t_.elems))]
        if whole and draw(st.sampled_from([True, False, False])):
            e, t = draw(st.sampled_from(whole))
            cx.features.add("ret-whole-container")
        else:
            e, t = draw(st.sampled_from(pool))
        ret, rtype = ["x", e], t
    else:
        n = draw(st.integers(1, 3))
        items: List[Tuple[Any, Ty]] = []
        for _ in range(n):
            if not inner and draw(st.integers(0, 4)) == 0:
                v = draw(st.sampled_from([7, "c", None, (1,)]))
                items.append((["c", enc(v)], Ty("any", none=v is None)))
                cx.features.add("const-in-return")
            else:
                items.append(draw(st.sampled_from(pool)))
        if shape == "T" and not inner and draw(st.integers(0, 4)) == 0:
            ret, rtype = ["NT", [e for e, _ in items]], Ty("tup", [t for _, t in items], desc=True)
            cx.features.add("ret-namedtuple")
        elif shape == "D" and not inner and draw(st.integers(0, 4)) == 0:
            keys = [f"r{i}" for i in range(n)]
            ret = ["OD", {k_: e for k_, (e, _) in zip(keys, items)}]
            rtype = Ty("dict", {k_: t for k_, (_, t) in zip(keys, items)}, desc=True)
            cx.features.add("ret-ordereddict")
        elif shape == "T":
            ret, rtype = ["T", [e for e, _ in items]], Ty("tup", [t for _, t in items], desc=True)
        elif shape == "L":
            ret, rtype = ["L", [e for e, _ in items]], Ty("list", [t for _, t in items], desc=True)
        else:
            keys = [f"r{i}" for i in range(n)]
            ret = ["D", {k_: e for k_, (e, _) in zip(keys, items)}]
            rtype = Ty("dict", {k_: t for k_, (_, t) in zip(keys, items)}, desc=True)
    cx.features.add("ret-" + shape)
    P: Dict[str, Any] = {"name": name, "params": params, "fns": fns, "body": body, "ret": ret}
    if inner:
        P["_rtype"] = rtype
        P["_ptypes"] = ptypes
    else:
        P["_ptypes"] = ptypes
    del used_sub
    return P


def _with_none(t: Ty, none: bool) -> Ty:
    if not none:
        return t
    if t.kind in ("tup", "list") and t.desc:
        return Ty(t.kind, [_with_none(x, True) for x in t.elems], desc=True)
    if t.kind == "dict" and t.desc:
        return Ty("dict", {k: _with_none(x, True) for k, x in t.elems.items()}, desc=True)
    return Ty(t.kind, t.elems, desc=t.desc, none=True)


@st.composite
def rich_case(draw: Any, bad_index: bool = False, **kw: Any) -> Dict[str, Any]:
    """A program plus an argument tuple (trailing defaulted parameters may be omitted)."""
    cx = Ctx()
    cx.bad_index = bad_index
    P = draw(rich_prog(cx=cx, **kw))
    ptypes = P.pop("_ptypes")
    n_req = sum(1 for _n, d in P["params"] if d is None)
    n_given = draw(st.integers(n_req, len(P["params"])))
    args = []
    for i in range(n_given):
        if ptypes[i] == "int":
            args.append(draw(st.integers(1, 6)))
        else:
            args.append(enc(draw(st.sampled_from(ANY_POOL))))
    if n_given < len(P["params"]):
        cx.features.add("default-omitted")
    return {"prog": P, "args": args, "features": sorted(cx.features)}
