"""Import tawazi from the tree under test (``$TAWAZI_SRC``, default /repo) with the interposers installed.

Every check imports this module first.  Nothing here depends on how tawazi spells its imports:
the concurrency primitives are wrapped in their home modules *before* tawazi is imported, so
``from concurrent.futures import wait`` inside tawazi picks up the wrappers.  The wrappers are
pass-through outside an observed execution.
"""
import os
import sys

SRC = os.path.abspath(os.environ.get("TAWAZI_SRC", "/repo"))
VERIF = os.path.dirname(os.path.dirname(os.path.abspath(__file__)))

# make sure the tree under test wins over any installed copy
sys.path.insert(0, SRC)
for _m in [m for m in sys.modules if m == "tawazi" or m.startswith("tawazi.")]:
    raise RuntimeError("tawazi imported before vlib.env")

from . import sched  # noqa: E402

sched.install_interposers()

import tawazi  # noqa: E402

_f = os.path.abspath(tawazi.__file__)
if not _f.startswith(SRC + os.sep):
    raise RuntimeError(f"tawazi imported from {_f}, expected under {SRC}")

sched.post_import_rebind()
