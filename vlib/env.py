"""Import tawazi from the tree under test (``$TAWAZI_SRC``, default /repo) with the interposers installed.

Every check imports this module first.  Nothing here depends on how tawazi spells its imports:
the concurrency primitives are wrapped in their home modules *before* tawazi is imported, so
``from concurrent.futures import wait`` inside tawazi picks up the wrappers.  The wrappers are
pass-through outside an observed execution.
"""
import os
import sys

SRC = os.path.abspath(os.environ.get("TAWAZI_SRC", "/repo"))
VERIF = os.path.dirname(os.path.dirname(os.path.abspath(__file__)))

# make sure the tree under test wins over any installed copy
sys.path.insert(0, SRC)
for _m in [m for m in sys.modules if m == "tawazi" or m.startswith("tawazi.")]:
    raise RuntimeError("tawazi imported before vlib.env")

from . import sched  # noqa: E402

sched.install_interposers()

import tawazi  # noqa: E402

_f = os.path.abspath(tawazi.__file__)
if not _f.startswith(SRC + os.sep):
    raise RuntimeError(f"tawazi imported from {_f}, expected under {SRC}")

sched.post_import_rebind()

try:  # loguru's default sink writes to stderr, which is a pipe nobody reads while a shard runs: records of the
    # debug-logging axis go to the null sink of process_env() only
    from loguru import logger as _logger

    _logger.remove()
except Exception:  # noqa: BLE001
    pass


import contextlib  # noqa: E402
import warnings  # noqa: E402
from typing import Any, Iterator  # noqa: E402


@contextlib.contextmanager
def process_env(log_debug: bool = False, warn_error: bool = False) -> Iterator[None]:
    """A legal but unusual state of the process around tawazi (environment axes of the generated cases):
    log_debug  - tawazi's loguru logging is switched on and a sink listens at DEBUG level (every record, lazy ones
                 included, is really formatted);
    warn_error - warnings are errors (python -W error)."""
    sink: Any = None
    if log_debug:
        from loguru import logger

        logger.enable("tawazi")
        sink = logger.add(lambda _m: None, level="DEBUG")
    try:
        with warnings.catch_warnings():
            if warn_error:
                warnings.simplefilter("error")
            yield
    finally:
        if log_debug:
            from loguru import logger

            logger.remove(sink)
            logger.disable("tawazi")
