"""Observed / controlled executions of tawazi.

* ``Exec``: a recorder (free mode) or schedule controller (ctl mode) for everything that happens between
  ``__enter__`` and ``__exit__`` in the current context: node ENTER/EXIT, pool SUBMITs, the scheduler's
  WAIT calls and what they returned.
* interposers: wrappers around ``concurrent.futures.wait`` / ``ThreadPoolExecutor`` / ``asyncio.wait`` /
  ``asyncio.ensure_future`` that are pass-through unless an ``Exec`` is active in the calling context.
* in ctl mode pooled node functions block on a gate after ENTER; gates are only opened from inside the
  scheduler's own wait calls, following a pre-drawn choice vector.  Completion order is therefore a pure
  function of (program, choices).
"""
import asyncio
import concurrent.futures as cf
import concurrent.futures._base as cf_base
import concurrent.futures.thread as cf_thread
import contextvars
import ctypes
import sys
import threading
import time
import traceback
from typing import Any, Dict, List, Optional

CUR: "contextvars.ContextVar[Optional[Exec]]" = contextvars.ContextVar("vlib_exec", default=None)
TL = threading.local()

_real_wait = cf.wait
_RealPool = cf.ThreadPoolExecutor
_real_async_wait = asyncio.wait
_real_ensure_future = asyncio.ensure_future

LAST_GUARD_FRAMES: List[str] = []  # where the harness's case guard found a thread stuck inside tawazi
PROGRESS = [0]  # events recorded by any execution of this process (read by the case guard of vlib/harness.py)
STALL_S = 8.0  # no event for that long => the watchdog looks for a structural hang witness


class HarnessSignal(BaseException):
    """Raised by the harness inside tawazi's scheduler (never a node failure)."""


class HangDetected(HarnessSignal):
    pass


class InjectedError(Exception):
    """The failure injected into a node function."""

    def __init__(self, site: str) -> None:
        super().__init__(f"injected failure at {site}")
        self.site = site


class Tok:
    __slots__ = ("n", "kind", "future", "site", "observed", "nid", "pool", "ident", "tid", "orphan")

    def __init__(self, n: int, kind: str) -> None:
        self.n = n
        self.kind = kind  # "thread" | "async" | "orphan" (left in a pool's queue by a failed worker spawn)
        self.orphan = False
        self.future: Optional[cf.Future] = None
        self.site: Optional[str] = None
        self.observed = False
        self.nid: Optional[str] = None
        self.pool: Any = None
        self.ident: Optional[int] = None  # worker thread that picked the node up
        self.tid: Optional[int] = None


def current_exec() -> "Optional[Exec]":
    ex = getattr(TL, "ex", None)
    if ex is not None:
        return ex
    return CUR.get()


class Exec:
    def __init__(
        self,
        mode: str = "free",
        choices: Any = (),
        failing: Any = (),
        sleeps: Optional[Dict[str, int]] = None,
        label: str = "",
        watchdog: bool = True,
        drain: bool = True,
        spawn_fail: Optional[int] = None,
    ) -> None:
        assert mode in ("free", "ctl")
        # fault injection: the pool's attempt to start its spawn_fail-th new worker (0-based, counted over this
        # execution) fails like the OS does when it has no thread left - RuntimeError("can't start new thread") out
        # of submit(), with the work item already in the pool's queue, exactly as in concurrent.futures.thread
        self.spawn_fail = spawn_fail
        self.spawns = 0
        self.orphan_gen = 0

        self.drain = drain  # wait (up to 3 s) at exit for nodes that are still running
        self.watchdog = watchdog
        self.mode = mode
        self.choices = list(choices)
        self.choice_pos = 0
        self.taken: List[List[int]] = []  # [choice, arity] per choice point actually met
        self.failing = set(failing)
        self.sleeps = sleeps or {}
        self.label = label
        self.cv = threading.Condition()
        self.events: List[Dict[str, Any]] = []
        self.toks: List[Tok] = []
        self.released: set = set()
        self.entered: Dict[str, int] = {}  # gate key -> count entered
        self.abort = False
        self.uncontrolled = False
        self.stalled: Optional[Dict[str, Any]] = None
        self.last_event = time.monotonic()
        self.in_hook = 0
        self.sched_thread: Optional[int] = None
        self.aspawn = 0
        self._token = None
        self.finished = False
        self.op = 0  # history position, used by setup stamps

    # ------------------------------------------------------------------ context
    def __enter__(self) -> "Exec":
        self._token = CUR.set(self)
        self.sched_thread = threading.get_ident()
        self.last_event = time.monotonic()
        if self.watchdog:
            _watchdog_register(self)
        return self

    def __exit__(self, *exc: Any) -> None:
        # let everything that is still gated finish, so that the trace is final and no thread stays blocked
        with self.cv:
            self.abort = True
            self.cv.notify_all()
        pend = [t.future for t in self.toks if t.future is not None and not t.future.done()
                and not (t.orphan and not getattr(t.pool, "_threads", None))]  # orphan without any worker: never runs
        if pend and self.drain:
            _real_wait(pend, timeout=3.0)
        self.finished = True
        if self.watchdog:
            _watchdog_unregister(self)
        CUR.reset(self._token)

    # ------------------------------------------------------------------ events
    def ev(self, k: str, **kw: Any) -> Dict[str, Any]:
        PROGRESS[0] += 1
        with self.cv:
            e = {"seq": len(self.events), "k": k}
            e.update(kw)
            self.events.append(e)
            self.last_event = time.monotonic()
            self.cv.notify_all()
            return e

    # ------------------------------------------------------------------ node side
    def node_enter(self, fn: str, site: str, args: Any, kwargs: Any) -> Optional[Tok]:
        tok: Optional[Tok] = getattr(TL, "tok", None) if getattr(TL, "ex", None) is self else None
        if tok is not None:
            tok.site = site
        self.ev(
            "ENTER",
            site=site,
            fn=fn,
            th=threading.get_ident(),
            tok=None if tok is None else tok.n,
            args=args,
            kwargs=kwargs,
        )
        return tok

    def node_gate(self, site: str, tok: Optional[Tok]) -> None:
        """Block a pooled node until the controller releases it (ctl mode), or sleep (free mode)."""
        if self.mode == "ctl":
            if tok is None:
                return
            if tok.orphan:
                # an orphaned work item is nobody's in-flight node: no wait call will ever ask for it.  It is held
                # until the scheduler's next wait call (so that whatever gets dispatched next to it is seen next to
                # it), at most one second
                end = time.monotonic() + 1.0
                with self.cv:
                    g = self.orphan_gen
                    while self.orphan_gen == g and not self.abort and time.monotonic() < end:
                        self.cv.wait(0.05)
                return
            with self.cv:
                while site not in self.released and not self.abort:
                    self.cv.wait(0.05)
        else:
            k = self.sleeps.get(site)
            if k:
                time.sleep(k * 1e-4)

    def node_exit(self, site: str, ok: bool = True) -> None:
        self.ev("EXIT", site=site, ok=ok, th=threading.get_ident())

    # ------------------------------------------------------------------ scheduler side (ctl)
    def _next_choice(self, arity: int) -> int:
        if arity <= 1:
            return 0
        if self.choice_pos < len(self.choices):
            c = self.choices[self.choice_pos] % arity
        else:
            c = 0
        self.choice_pos += 1
        self.taken.append([c, arity])
        return c

    def _gated(self) -> List[Tok]:
        return [
            t
            for t in self.toks
            if t.site is not None and not t.orphan and t.site not in self.released and not t.future.done()  # type: ignore[union-attr]
        ]

    def _wait_all_entered(self, limit: float = 2.0) -> None:
        """Wait until every submitted, unfinished pooled node has entered its function."""
        end = time.monotonic() + limit
        with self.cv:
            while True:
                missing = [t for t in self.toks if t.site is None and not t.orphan and not t.future.done()]  # type: ignore[union-attr]
                if not missing or self.abort:
                    return
                if time.monotonic() > end:
                    self.uncontrolled = True
                    # structural witness of starvation: the node is still queued in a pool all of whose workers are
                    # busy (a free worker would have picked it up at once) - not mere slowness
                    starved = []
                    for t in missing:
                        try:
                            q = t.pool._work_queue.qsize()
                            # every worker of that pool is inside a node function of this execution (not merely
                            # "exists"): nothing can pick the queued node up until one of them returns
                            inside = sum(1 for u in self.toks if u.pool is t.pool and u.site is not None
                                         and u.future is not None and not u.future.done())
                            busy = len(t.pool._threads) >= t.pool._max_workers and inside >= t.pool._max_workers
                        except Exception:  # noqa: BLE001
                            q, busy = 0, False
                        if q > 0 and busy:
                            starved.append({"tok": t.n, "nid": t.nid, "queued": q, "workers": t.pool._max_workers})
                    if starved:
                        e = {"seq": len(self.events), "k": "STARVED", "starved": starved}
                        self.events.append(e)
                    blocked = self._blocked_before_entry([t for t in missing if t.tid is not None][:3])
                    if blocked:
                        self.events.append({"seq": len(self.events), "k": "BLOCKED", "blocked": blocked})
                    return
                self.cv.wait(0.01)

    def _blocked_before_entry(self, toks: List[Tok]) -> List[Dict[str, Any]]:
        """Structural witness for "a worker has picked the node up, but something inside tawazi keeps it from entering
        its function": in three samples 0.2 s apart the worker thread is asleep (kernel state S, i.e. waiting, not
        merely deprived of CPU) with its innermost Python frame in tawazi's code.  Called with self.cv held."""
        out: List[Dict[str, Any]] = []
        for t in toks:
            where = None
            ok = True
            for _ in range(3):
                try:
                    with open(f"/proc/self/task/{t.tid}/stat") as f:
                        state = f.read().rsplit(")", 1)[1].split()[0]
                except Exception:  # noqa: BLE001
                    ok = False
                    break
                fr = sys._current_frames().get(t.ident)
                # (a wait on a lock / semaphore / condition of the standard library counts for the frame that asked for it)
                while fr is not None and fr.f_code.co_filename.endswith("/threading.py") and fr.f_back is not None:
                    fr = fr.f_back
                here = f"{fr.f_code.co_filename}:{fr.f_lineno}:{fr.f_code.co_name}" if fr is not None else ""
                if state != "S" or "/tawazi/" not in here or t.site is not None or (where is not None and here != where):
                    ok = False
                    break
                where = here
                self.cv.wait(0.2)
            if ok and where:
                out.append({"tok": t.n, "nid": t.nid, "at": where})
        return out

    def _pick(self, kind: str, all_completed: bool) -> List[List[Tok]]:
        """Stages of nodes to release.  FIRST_COMPLETED: one stage (a drawn non-empty subset of the awaited
        kind plus a drawn subset of the other kind).  ALL_COMPLETED: every node of the awaited kind, one per
        stage in a drawn order, so that the state in between (the scheduler is still blocked although some
        of the awaited nodes are done) is observable."""
        gated = sorted(self._gated(), key=lambda t: (t.site or "", t.n))
        prim = [t for t in gated if t.kind == kind]
        oth = [t for t in gated if t.kind != kind]
        if not prim:
            # nothing of the awaited kind can be released by us: open everything (degenerate / foreign tree)
            return [gated] if gated else []
        if all_completed:
            c = self._next_choice(2 ** len(oth))
            extra = [t for i, t in enumerate(oth) if c >> i & 1]
            order = list(prim)
            stages: List[List[Tok]] = []
            while order:
                k = self._next_choice(len(order))
                stages.append([order.pop(k)])
            stages[0].extend(extra)
            return stages
        np_ = (1 << len(prim)) - 1
        c = self._next_choice(np_ * (2 ** len(oth)))
        pmask, omask = c % np_ + 1, c // np_
        out = [t for i, t in enumerate(prim) if pmask >> i & 1]
        out += [t for i, t in enumerate(oth) if omask >> i & 1]
        return [out]

    def _release_stages(self, stages: List[List[Tok]], e: Dict[str, Any]) -> None:
        done: List[Any] = []
        for i, st in enumerate(stages):
            self._release(st)
            done.extend(t.site for t in st)
            if i < len(stages) - 1:
                self.ev("WAITSTEP", of=e["seq"], kind=e["kind"], done=list(done))

    def _release(self, toks: List[Tok]) -> None:
        with self.cv:
            for t in toks:
                self.released.add(t.site)
            self.cv.notify_all()
        futs = [t.future for t in toks]
        end = time.monotonic() + 20.0
        while True:
            _d, nd = _real_wait(futs, timeout=0.2, return_when=cf.ALL_COMPLETED)
            if not nd or self.abort:
                break
            if time.monotonic() > end:
                self.uncontrolled = True
                break
        self.last_event = time.monotonic()

    def _inflight_sites(self) -> List[Any]:
        return [[t.site, t.kind, t.n] for t in self.toks if not t.observed]

    def _open_orphans(self) -> None:
        if self.spawn_fail is not None:
            with self.cv:
                self.orphan_gen += 1
                self.cv.notify_all()

    def on_wait(self, fs: Any, timeout: Any, return_when: str) -> Any:
        fs = set(fs)
        self._open_orphans()
        if self.mode != "ctl" or self.abort:
            e = self.ev("WAIT", kind="thread", n=len(fs), when=return_when, blocking=None)
            res = _real_wait(fs, timeout=timeout, return_when=return_when)
            self._observe_thread(res[0], e)
            return res
        if timeout is not None and timeout <= 0:
            # a poll ("collect what has already finished"): it never blocks, so nothing is released for it
            e = self.ev("WAIT", kind="thread", n=len(fs), when=return_when, blocking=False, poll=True,
                        inflight=self._inflight_sites())
            res = _real_wait(fs, timeout=0, return_when=return_when)
            self._observe_thread(res[0], e)
            return res
        if not fs and return_when != cf.ALL_COMPLETED:
            self.ev("WAIT", kind="thread", n=0, when=return_when, blocking=True, hang="empty-set")
            raise HangDetected("concurrent.futures.wait(FIRST_COMPLETED) on an empty set blocks forever")
        self.in_hook += 1
        try:
            already = [f for f in fs if f.done()]
            need = False if (already and return_when != cf.ALL_COMPLETED) else any(not f.done() for f in fs)
            self._wait_all_entered()
            e = self.ev(
                "WAIT",
                kind="thread",
                n=len(fs),
                when=return_when,
                blocking=need,
                inflight=self._inflight_sites(),
            )
            if need:
                self._release_stages(self._pick("thread", return_when == cf.ALL_COMPLETED), e)
            res = self._real_wait_loop(fs, timeout, return_when)
            self._observe_thread(res[0], e)
            return res
        finally:
            self.in_hook -= 1

    def _real_wait_loop(self, fs: Any, timeout: Any, return_when: str) -> Any:
        if timeout is not None:
            return _real_wait(fs, timeout=timeout, return_when=return_when)
        end = time.monotonic() + 30.0
        while True:
            res = _real_wait(fs, timeout=0.2, return_when=return_when)
            done, nd = res
            if return_when == cf.ALL_COMPLETED:
                if not nd:
                    return res
            elif done or not fs:
                return res
            if self.abort and time.monotonic() > end:
                raise HangDetected("wait never returned after all gates were opened")
            if not self.abort and time.monotonic() > end:
                # something we do not control keeps the futures pending: open everything
                with self.cv:
                    self.abort = True
                    self.uncontrolled = True
                    self.cv.notify_all()
                end = time.monotonic() + 30.0

    @staticmethod
    def _failed_sites(done: Any) -> List[str]:
        """Sites whose injected failure is carried by one of the futures a wait call handed to the scheduler."""
        out = []
        for f in done:
            try:
                exc = f.exception() if f.done() and not f.cancelled() else None
            except BaseException:  # noqa: BLE001
                exc = None
            while exc is not None and not isinstance(exc, InjectedError):
                exc = exc.__cause__
            if exc is not None:
                out.append(exc.site)
        return out

    def _observe_thread(self, done: Any, e: Dict[str, Any]) -> None:
        ids = {id(f) for f in done}
        obs = []
        for t in self.toks:
            if not t.observed and t.future is not None and id(t.future) in ids:
                t.observed = True
                obs.append(t.site if t.site is not None else f"?{t.n}")
        self.ev("WAITRET", kind="thread", of=e["seq"], observed=obs, ndone=len(done), failed_seen=self._failed_sites(done))

    async def on_async_wait(self, fs: Any, timeout: Any, return_when: str) -> Any:
        fs = set(fs)
        self._open_orphans()
        if self.mode != "ctl" or self.abort:
            e = self.ev("WAIT", kind="async", n=len(fs), when=return_when, blocking=None)
            res = await _real_async_wait(fs, timeout=timeout, return_when=return_when)
            self._observe_async(e, len(res[0]), res[0])
            return res
        self.in_hook += 1
        try:
            # let freshly created tasks reach the pool
            for _ in range(200):
                pend = sum(1 for f in fs if not f.done())
                known = sum(1 for t in self.toks if t.kind == "async" and not t.observed)
                if known >= pend:
                    break
                await asyncio.sleep(0)
                if known < pend:
                    time.sleep(0.0005)
            already = [f for f in fs if f.done()]
            need = False if (already and return_when != asyncio.ALL_COMPLETED) else any(not f.done() for f in fs)
            self._wait_all_entered()
            e = self.ev(
                "WAIT",
                kind="async",
                n=len(fs),
                when=return_when,
                blocking=need,
                inflight=self._inflight_sites(),
            )
            if need:
                self._release_stages(self._pick("async", return_when == asyncio.ALL_COMPLETED), e)
            # make the loop notice every async node that has finished in the pool
            end = time.monotonic() + 5.0
            while True:
                exp = sum(
                    1 for t in self.toks if t.kind == "async" and not t.observed and t.future.done()  # type: ignore[union-attr]
                )
                have = sum(1 for f in fs if f.done())
                if have >= min(exp, len(fs)):
                    break
                if time.monotonic() > end:
                    self.uncontrolled = True
                    break
                await asyncio.sleep(0)
            if not fs:
                res = await _real_async_wait(fs, timeout=timeout, return_when=return_when)
            else:
                res = await _real_async_wait(fs, timeout=timeout, return_when=return_when)
            self._observe_async(e, len(res[0]), res[0])
            return res
        finally:
            self.in_hook -= 1

    def _observe_async(self, e: Dict[str, Any], ndone: int, done: Any = ()) -> None:
        # exact under the controller (the hook made the loop catch up with every finished pool future); in free
        # mode "observed" may run ahead of what asyncio.wait returned, "failed_seen" is exact in both modes
        obs = []
        for t in self.toks:
            if t.kind == "async" and not t.observed and t.future is not None and t.future.done():
                t.observed = True
                obs.append(t.site if t.site is not None else f"?{t.n}")
        self.ev("WAITRET", kind="async", of=e["seq"], observed=obs, ndone=ndone, failed_seen=self._failed_sites(done))

    # ------------------------------------------------------------------ pool side
    def on_submit(self, pool: Any, fn: Any, args: Any, kwargs: Any, real_submit: Any) -> Any:
        caller = sys._getframe(2).f_code.co_name
        kind = "async" if caller == "run_in_executor" else "thread"
        with self.cv:
            tok = Tok(len(self.toks), kind)
            self.toks.append(tok)
        tok.nid = _guess_node_id(fn)
        tok.pool = pool
        ex = self

        def run(*a: Any, **k: Any) -> Any:
            TL.ex, TL.tok = ex, tok
            tok.ident, tok.tid = threading.get_ident(), threading.get_native_id()
            try:
                return fn(*a, **k)
            finally:
                TL.ex, TL.tok = None, None
                if tok.orphan and tok.future is not None and not tok.future.done():
                    tok.future.set_result(None)

        inflight = sum(1 for t in self.toks if t.future is not None and not t.future.done()) + 1
        self.ev(
            "SUBMIT",
            tok=tok.n,
            kind=kind,
            nid=tok.nid,
            inflight=inflight,
            workers=getattr(pool, "_max_workers", None),
            th=threading.get_ident(),
        )
        try:
            fut = real_submit(run, *args, **kwargs)
        except RuntimeError as e:
            if "can't start new thread" in str(e):
                # the work item stays in the pool's queue: another worker of that pool (if there is one) runs it
                # when it gets free.  No caller ever sees a future for it; ours completes when the item has run
                tok.observed, tok.orphan, tok.kind = True, True, "orphan"
                tok.future = cf.Future()
                self.ev("SPAWNFAIL", tok=tok.n, nid=tok.nid, kind=kind, workers_alive=len(getattr(pool, "_threads", ())))
            raise
        tok.future = fut
        fut.add_done_callback(self._notify)
        return fut

    def _notify(self, _f: Any = None) -> None:
        with self.cv:
            self.cv.notify_all()


def _guess_node_id(fn: Any) -> Optional[str]:
    """Best effort only (used for diagnostics): the ExecNode id behind a submitted callable."""
    try:
        for cand in (fn, *getattr(fn, "args", ())):
            s = getattr(cand, "__self__", None)
            if s is not None and hasattr(s, "id"):
                return str(s.id)
    except Exception:  # pragma: no cover
        pass
    return None


# ---------------------------------------------------------------------- interposers
class CtlPool(_RealPool):  # type: ignore[misc,valid-type]
    def __init__(self, *a: Any, **k: Any) -> None:
        super().__init__(*a, **k)
        self._vlib_ex = CUR.get()
        if self._vlib_ex is not None:
            self._vlib_ex.ev("POOL", workers=self._max_workers)

    def _adjust_thread_count(self) -> None:
        ex = self._vlib_ex
        if ex is None or ex.finished or ex.spawn_fail is None:
            return super()._adjust_thread_count()
        # same decisions as concurrent.futures.thread.ThreadPoolExecutor._adjust_thread_count (CPython 3.8-3.12); the
        # one difference is that the chosen spawn fails where Thread.start() would raise
        if self._idle_semaphore.acquire(timeout=0):
            return
        if len(self._threads) < self._max_workers:
            with ex.cv:
                n = ex.spawns
                ex.spawns += 1
            if n == ex.spawn_fail:
                raise RuntimeError("can't start new thread")
        return super()._adjust_thread_count()  # probes again: a worker that became idle meanwhile is reused

    def submit(self, fn: Any, /, *args: Any, **kwargs: Any) -> Any:  # type: ignore[override]
        ex = self._vlib_ex
        if ex is None or ex.finished:
            return super().submit(fn, *args, **kwargs)
        return ex.on_submit(self, fn, args, kwargs, super().submit)


def ctl_wait(fs: Any, timeout: Any = None, return_when: str = cf.ALL_COMPLETED) -> Any:
    ex = CUR.get()
    # pool workers of async-thread nodes inherit the context; only non-worker threads are schedulers
    if ex is None or ex.finished or getattr(TL, "ex", None) is not None:
        return _real_wait(fs, timeout=timeout, return_when=return_when)
    return ex.on_wait(fs, timeout, return_when)


async def ctl_async_wait(fs: Any, *, timeout: Any = None, return_when: str = asyncio.ALL_COMPLETED) -> Any:
    ex = CUR.get()
    if ex is None or ex.finished:
        return await _real_async_wait(fs, timeout=timeout, return_when=return_when)
    return await ex.on_async_wait(fs, timeout, return_when)


def ctl_ensure_future(coro_or_future: Any, *, loop: Any = None) -> Any:
    ex = CUR.get()
    if ex is not None and not ex.finished:
        ex.aspawn += 1
        ex.ev("ASPAWN", n=ex.aspawn)
    return _real_ensure_future(coro_or_future, loop=loop)


_installed = False


def install_interposers() -> None:
    global _installed
    if _installed:
        return
    _installed = True
    ctl_wait.__wrapped__ = _real_wait  # type: ignore[attr-defined]
    cf.wait = ctl_wait  # type: ignore[assignment]
    cf_base.wait = ctl_wait  # type: ignore[assignment]
    cf.ThreadPoolExecutor = CtlPool  # type: ignore[misc]
    cf_thread.ThreadPoolExecutor = CtlPool  # type: ignore[misc]
    asyncio.wait = ctl_async_wait  # type: ignore[assignment]
    asyncio.tasks.wait = ctl_async_wait  # type: ignore[assignment]
    asyncio.ensure_future = ctl_ensure_future  # type: ignore[assignment]


def post_import_rebind() -> None:
    """If tawazi's scheduler module binds the primitives by name, make sure the names are the wrappers."""
    try:
        from tawazi._dag import helpers as h
    except Exception:  # a refactored tree: the global patches still apply
        return
    if getattr(h, "wait", None) is _real_wait:
        h.wait = ctl_wait  # type: ignore[attr-defined]
    if getattr(h, "ThreadPoolExecutor", None) is _RealPool:
        h.ThreadPoolExecutor = CtlPool  # type: ignore[attr-defined]


# ---------------------------------------------------------------------- watchdog
_wd_lock = threading.Lock()
_wd_active: List[Exec] = []
_wd_thread: Optional[threading.Thread] = None


def _watchdog_register(ex: Exec) -> None:
    global _wd_thread
    with _wd_lock:
        _wd_active.append(ex)
        if _wd_thread is None:
            _wd_thread = threading.Thread(target=_watchdog_loop, name="vlib-watchdog", daemon=True)
            _wd_thread.start()


def _watchdog_unregister(ex: Exec) -> None:
    with _wd_lock:
        if ex in _wd_active:
            _wd_active.remove(ex)


def _frames_of(ident: Optional[int]) -> List[str]:
    fr = sys._current_frames().get(ident) if ident is not None else None
    out = []
    for fs in traceback.extract_stack(fr) if fr is not None else []:
        out.append(f"{fs.filename}:{fs.lineno}:{fs.name}")
    return out


def _watchdog_loop() -> None:
    last_tick = time.monotonic()
    while True:
        time.sleep(0.5)
        with _wd_lock:
            active = list(_wd_active)
        now = time.monotonic()
        frozen = now - last_tick > 2.0  # the whole process was not scheduled: that is not the scheduler's fault
        last_tick = now
        for ex in active:
            if ex.finished:
                continue
            if frozen and ex.stalled is None:
                ex.last_event = now
                continue
            idle = now - ex.last_event
            if ex.stalled is None and idle > STALL_S:
                frames = _frames_of(ex.sched_thread)
                with ex.cv:
                    running = [
                        e["site"]
                        for e in ex.events
                        if e["k"] == "ENTER"
                        and not any(x["k"] == "EXIT" and x["site"] == e["site"] and x["seq"] > e["seq"] for x in ex.events)
                    ]
                    gated = [t.site for t in ex._gated()]
                    pending = [t.n for t in ex.toks if t.future is not None and not t.future.done()]
                ex.stalled = {
                    "idle_s": round(idle, 1),
                    "frames": frames[-12:],
                    "in_hook": ex.in_hook,
                    "running": running,
                    "gated": gated,
                    "pending": pending,
                    "t": now,
                }
                with ex.cv:
                    ex.abort = True
                    ex.cv.notify_all()
            elif ex.stalled is not None and now - ex.stalled["t"] > 3.0 and not ex.stalled.get("killed"):
                ex.stalled["killed"] = True
                if ex.sched_thread is not None:
                    ctypes.pythonapi.PyThreadState_SetAsyncExc(
                        ctypes.c_ulong(ex.sched_thread), ctypes.py_object(HangDetected)
                    )
