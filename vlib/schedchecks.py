"""Shared driver for the schedule properties (C02-C06, C08, C09, C14): generate a sched case, execute it
(free / controlled / exhaustive choice tree), apply the selected oracles, compute trace statistics."""
import inspect
from typing import Any, Callable, Dict, List, Optional, Sequence

from hypothesis import strategies as st

from . import gen, oracle, prog, sched
from .harness import CaseResult
from .schedcase import Model, Outcome, execute

MAX_LEAVES = {"quick": 40, "thorough": 400}


def trace_stats(T: oracle.Trace) -> Dict[str, Any]:
    M = T.M
    inside: set = set()
    max_inside = 0
    seq_pressure = False
    for e in T.ev:
        if e["k"] == "ENTER":
            s = M.site_of_key.get(e["site"], e["site"])
            inside.add(s)
            max_inside = max(max_inside, len(inside))
        elif e["k"] == "EXIT":
            inside.discard(M.site_of_key.get(e["site"], e["site"]))
    K = oracle.Know(T)
    bound_binding = False
    for item in K.walk():
        if item[0] == "wait":
            _, e, dispatched, known = item
            infl = [s for s in dispatched if s in M.res and M.pooled(s) and s not in known]
            ready, _ = K.ready(dispatched, known)
            if e.get("blocking") and len(infl) >= M.mc and ready:
                bound_binding = True
            if infl and any(M.seq.get(m) for m in ready):
                seq_pressure = True
            if any(M.seq.get(s) for s in infl) and ready:
                seq_pressure = True
    return {"max_inside": max_inside, "bound_binding": bound_binding, "seq_pressure": seq_pressure,
            "resources": sorted({M.res[s] for s in T.enter if s in M.res})}


def _is_spawn_fault(exc: Optional[BaseException]) -> bool:
    seen = 0
    while exc is not None and seen < 8:
        if isinstance(exc, RuntimeError) and "can't start new thread" in str(exc):
            return True
        exc, seen = exc.__cause__ or exc.__context__, seen + 1
    return False


def run_once(case: Dict[str, Any], oracles: Sequence[str], res: CaseResult, M: Model) -> Optional[Dict[str, Any]]:
    """Execute the case once and add the oracle findings to `res`.  Returns trace statistics."""
    noframe = case.get("noframe")
    if noframe:
        real = inspect.currentframe
        inspect.currentframe = lambda: None  # type: ignore[assignment]
    try:
        out = execute(case, M)
    finally:
        if noframe:
            inspect.currentframe = real  # type: ignore[assignment]
    if isinstance(out.build_exc, sched.HangDetected):
        res.viol("hang-while-building", "building the DAG / creating the executor for this selection did not return (thread inside "
                 f"tawazi in three samples one second apart after 45 s): {sched.LAST_GUARD_FRAMES}")
        return None
    if out.build_exc is not None:
        res.viol("build-error", f"building / selecting raised {type(out.build_exc).__name__}: {out.build_exc}")
        return None
    assert out.ex is not None
    if out.reconf_state is not None:
        stats_state = out.reconf_state if isinstance(out.reconf_state, str) else out.reconf_state[0]
        if stats_state == "third-state":
            res.viol("refused-config-changed-state", "a configuration that was refused (unusable last entry) left an attribute that is neither "
                     f"the old nor the new value: {out.reconf_state[1]}")
            return None
        if stats_state == "refused-mixed":
            res.skipped = "refused-config-partly-applied"
            return None
        if stats_state == "refused-old" or out.mc_shown is not None:
            # the model follows what the API shows after the refused call
            c2 = dict(case)
            if stats_state == "refused-old":
                c2.pop("reconf", None)
                c2.pop("reconf_seq", None)
            if out.mc_shown is not None:
                c2["mc"] = out.mc_shown
            M = Model(c2)
    T = oracle.Trace(M, out)
    stats: Dict[str, Any] = {}
    spawn_fails = [e for e in out.ex.events if e["k"] == "SPAWNFAIL"]
    spawn_failed = bool(spawn_fails)
    tag = f" [mode={out.ex.mode} choices={[t[0] for t in out.ex.taken]}]"
    for name in oracles:
        if name == "values":
            if out.exc is None and out.ref_exc is None and out.value != out.ref_value and case.get("call") != "setup":
                if case.get("debug") and case.get("sel") and isinstance(out.value, tuple) and len(out.value) == len(M.sites):
                    # debug nodes pulled into a sub-graph run by the debug rule are C13's business
                    keep = [i for i, s_ in enumerate(M.sites) if not M.spec[s_].get("debug")]
                    if [out.value[i] for i in keep] != [out.ref_value[i] for i in keep]:
                        res.viol("value", f"returned {out.value!r}, reference {out.ref_value!r} (non-debug positions differ)" + tag)
                else:
                    res.viol("value", f"returned {out.value!r}, reference {out.ref_value!r}" + tag)
            if out.exc is None and isinstance(out.ref_exc, (KeyError, IndexError)):
                res.viol("bad-index-not-raised", f"the function body raises {type(out.ref_exc).__name__} on a bad index, the call returned {out.value!r}" + tag)
        elif name == "dep_order":
            for r, m, k in oracle.dep_order(T, case):
                res.viol(r, m + tag, k)
        elif name == "exactly_once":
            for r, m, k in oracle.exactly_once(T, case):
                res.viol(r, m + tag, k)
        elif name == "bound_placement":
            for r, m, k in oracle.bound_placement(T, case):
                res.viol(r, m + tag, k)
        elif name == "seq_isolation":
            for r, m, k in oracle.seq_isolation(T, case):
                res.viol(r, m + tag, k)
        elif name == "priority":
            for r, m, k in oracle.priority(T, case, stats):
                res.viol(r, m + tag, k)
        elif name == "no_idle":
            for r, m, k in oracle.no_idle(T, case, stats):
                res.viol(r, m + tag, k)
        elif name == "termination":
            bad, inc = oracle.termination(T, case)
            for r, m, k in bad:
                res.viol(r, m + tag, k)
            if inc:
                res.inconclusive = inc
        elif name == "failure":
            for r, m, k in oracle.failure(T, case, noframe=bool(noframe)):
                res.viol(r, m + tag, k)
        elif name == "no_internal_error":
            if spawn_failed and _is_spawn_fault(out.exc):
                pass  # the injected resource fault itself (possibly wrapped by tawazi): failing the call with it is fine
            elif out.exc is not None and out.ref_exc is None and not isinstance(out.exc, sched.HarnessSignal):
                res.viol("internal-error", f"the call raised {type(out.exc).__name__}: {out.exc}" + tag)
        else:
            raise ValueError(name)
    if out.ex.uncontrolled and out.ex.mode == "ctl":
        res.inconclusive = res.inconclusive or "uncontrolled"
    if isinstance(out.exc, sched.HarnessSignal) and "termination" not in oracles:
        res.inconclusive = res.inconclusive or "stalled"
    stats.update(trace_stats(T))
    stats["taken"] = out.ex.taken
    stats["n_entered"] = len(T.enter)
    stats["raised"] = type(out.exc).__name__ if out.exc is not None else None
    stats["spawn_failed"] = spawn_failed
    stats["reconf_state"] = out.reconf_state if out.reconf_state is None or isinstance(out.reconf_state, str) else out.reconf_state[0]
    stats["spawn_failed_inflight"] = any(e.get("workers_alive") for e in spawn_fails)
    stats["failed_ran"] = [s for s in case.get("failing", []) if any(not x["ok"] for x in T.exit.get(s, []))]
    inflight_at_fail = 0
    for s in stats["failed_ran"]:
        fx = [x for x in T.exit.get(s, []) if not x["ok"]][0]["seq"]
        for o, es in T.enter.items():
            if o != s and any(e["seq"] < fx for e in es) and not T.exit_before(o, fx, ok_only=False):
                inflight_at_fail += 1
    stats["siblings_at_failure"] = inflight_at_fail
    return stats


def evaluate(case: Dict[str, Any], oracles: Sequence[str], nontrivial: Callable[[Dict[str, Any], Model, List[Dict[str, Any]]], bool],
             tier_leaves: int = 40) -> CaseResult:
    res = CaseResult()
    M = Model(case)
    all_stats: List[Dict[str, Any]] = []
    if case.get("mode") == "ctl-ex":
        prefix: List[int] = []
        leaves = 0
        while True:
            c = dict(case, mode="ctl", choices=prefix)
            s = run_once(c, oracles, res, M)
            leaves += 1
            if s is None or res.violations:
                break
            all_stats.append(s)
            taken = s["taken"]
            i = len(taken) - 1
            while i >= 0 and taken[i][0] + 1 >= taken[i][1]:
                i -= 1
            if i < 0:
                res.cls("tree-complete")
                break
            if leaves >= case.get("max_leaves", tier_leaves):
                res.cls("tree-truncated")
                break
            prefix = [t[0] for t in taken[:i]] + [taken[i][0] + 1]
        res.evals = leaves
        res.cls("ctl-ex")
    else:
        s = run_once(case, oracles, res, M)
        if s is not None:
            all_stats.append(s)
        res.cls(case.get("mode", "free"))
    if all_stats:
        res.nontrivial = nontrivial(case, M, all_stats)
        res.note = {k: all_stats[0][k] for k in ("max_inside", "resources", "raised") if k in all_stats[0]}
    res.cls("async" if case.get("async") else "sync")
    if case.get("sel"):
        res.cls("sel")
    if case.get("nested"):
        res.cls("called-as-nested-dag")
    if case.get("derive"):
        res.cls("derived-" + case["derive"])
    if case.get("warm"):
        res.cls("warm-call-before")
    if case.get("from_thread"):
        res.cls("called-from-a-non-main-thread")
    if case.get("log_debug"):
        res.cls("debug-logging-on")
    if case.get("warn_error"):
        res.cls("warnings-are-errors")
    if case.get("early_exec"):
        res.cls("executor-created-before-reconfiguration")
    for s_ in all_stats:
        if s_.get("reconf_state"):
            res.cls("config-with-unusable-entry-" + s_["reconf_state"])
            break
    if case.get("group_conf"):
        res.cls("config-by-group-tag")
    if case.get("spawn_fail") is not None:
        res.cls("spawn-fault")
        if any(s_.get("spawn_failed") for s_ in all_stats):
            res.cls("spawn-fault-fired")
        if any(s_.get("spawn_failed_inflight") for s_ in all_stats):
            res.cls("spawn-fault-fired-with-live-workers")
    if case.get("failing"):
        res.cls("fault")
        if any(s_["failed_ran"] for s_ in all_stats):
            res.cls("fault-ran")
        if any(s_["failed_ran"] and s_["siblings_at_failure"] for s_ in all_stats):
            res.cls("fault-with-sibling-in-flight")
        if any(any(M.desc[f] for f in s_["failed_ran"]) for s_ in all_stats):
            res.cls("fault-with-descendant")
    return res


# ------------------------------------------------------------------------------------ case strategies
@st.composite
def sched_case(
    draw: Any,
    tier: str = "quick",
    modes: Sequence[str] = ("ctl", "free"),
    resources: Sequence[str] = gen.RES,
    dep_kinds: Sequence[str] = ("pos", "kw"),
    seq_rate: float = 0.0,
    prio: Optional[Sequence[int]] = None,
    max_sites: int = 9,
    min_sites: int = 2,
    max_deps: int = 3,
    wide: bool = False,
    faults: int = 0,
    flags: bool = False,
    sel_rate: float = 0.0,
    reuse: bool = False,
    n_params: int = 0,
    config_rate: float = 0.0,
    pure_kind_rate: float = 0.0,
    max_mc: int = 5,
    min_mc: int = 1,
    profile_rate: float = 0.0,
    reconf_rate: float = 0.15,
    index_rate: float = 0.0,
    bad_index_rate: float = 0.0,
    n_setup: int = 0,
    n_debug: int = 0,
    setup_call_rate: float = 0.0,
    flag_rate: float = 0.0,
    warm_rate: float = 0.3,
    nested_rate: float = 0.15,
    spawn_fail_rate: float = 0.0,
    many_args_rate: float = 0.0,
) -> Dict[str, Any]:
    mode = draw(st.sampled_from(list(modes)))
    res_pool = list(resources)
    if pure_kind_rate and draw(st.floats(0, 1)) < pure_kind_rate:
        res_pool = draw(st.sampled_from([["thread", "main-thread"], ["async-thread", "main-thread"], ["thread"], ["async-thread"]]))
    ms = max_sites
    if mode == "ctl-ex":
        ms = min(max_sites, 6)
    if flag_rate and draw(st.floats(0, 1)) < flag_rate:
        flags = True
    kinds = list(dep_kinds) + (["flag"] if flags else [])
    sel_on = bool(sel_rate) and draw(st.floats(0, 1)) < sel_rate
    if (n_setup or n_debug) and gen.chance(draw, 0.35):
        n_setup = n_debug = 0  # a good share of the programs has neither setup nor debug sites
    setup_by_roots = bool(setup_call_rate) and bool(n_setup) and gen.chance(draw, setup_call_rate / 2)
    P = draw(gen.flat_prog(min_sites=min_sites, max_sites=ms, max_deps=max_deps, resources=res_pool, prio_range=prio,
                           seq_rate=seq_rate, dep_kinds=kinds, wide=wide, reuse=reuse, n_params=n_params,
                           mark_roots=not (sel_on or setup_by_roots), index_rate=index_rate, bad_index_rate=bad_index_rate,
                           n_setup=(draw(st.integers(2, max(2, n_setup))) if setup_by_roots else draw(st.integers(0, n_setup))) if n_setup else 0,
                           n_debug=draw(st.integers(0, n_debug)) if n_debug else 0,
                           split_rate=0.3 if flags else 0.0, same_qual_rate=0.12, setup_dense=setup_by_roots,
                           many_args_rate=many_args_rate))
    sites = [s["site"] for s in P["body"]]
    fn_uses: Dict[str, int] = {}
    for s in P["body"]:
        fn_uses[s["fn"]] = fn_uses.get(s["fn"], 0) + 1
    for s in P["body"]:
        f = P["fns"][s["fn"]]
        # a debug node with a constant argument (the site marker) is never pulled in by the debug rule
        if f.get("debug") and fn_uses[s["fn"]] == 1 and draw(st.sampled_from([True, True, False])):
            s["mark"] = False
        # a flagged node is often sequential: deactivated sequential candidates are a corner of their own
        if s.get("active") is not None and seq_rate and fn_uses[s["fn"]] == 1 and draw(st.booleans()):
            f["seq"] = True
    case: Dict[str, Any] = {"prog": P, "mc": draw(st.integers(min_mc, max_mc)), "async": draw(st.booleans()), "mode": mode}
    if flags:
        # flag producers return a constant of known truthiness
        for s in P["body"]:
            a = s.get("active")
            if a is not None and a[0] == "v":
                prod = [x for x in P["body"] if x["out"] == a[1]][0]
                f = P["fns"][prod["fn"]]
                if not f.get("setup") and f.get("kind") not in ("tup", "dict") and not f.get("pair"):
                    f["kind"] = "const"
                    f["val"] = draw(st.sampled_from([0, 1, "", "x", None, True, False, {"T": []}, {"T": [0]}]))
    if n_params:
        case["args"] = [draw(st.sampled_from([0, 1, "a", None, {"T": [1, 2]}])) for _ in range(n_params)]
    if mode in ("ctl",):
        case["choices"] = draw(st.lists(st.integers(0, 2**16), max_size=14))
    elif mode == "free":
        case["sleeps"] = {s: draw(st.integers(0, 4)) for s in sites if draw(st.booleans())}
    if mode == "ctl-ex":
        case["max_leaves"] = MAX_LEAVES[tier]
    if faults and draw(st.integers(0, 4)) > 0:
        k = draw(st.integers(1, faults))
        dsc = gen.descendants(gen.deps_of(P))
        inner = [s for s in sites if dsc[s]] or sites
        pool = inner if draw(st.integers(0, 3)) else sites  # mostly nodes that have something downstream
        case["failing"] = draw(st.lists(st.sampled_from(pool), min_size=1, max_size=k, unique=True))
    if sel_on:
        case["sel"] = draw(selection_strategy(P))
    if setup_by_roots:
        # dag.setup(root_nodes=R): accepted when every setup node lies below R, i.e. R = all setup sites without
        # dependencies, provided they are roots of tawazi's graph (no constant argument either)
        deps0 = gen.deps_of(P)
        sroots = [s["site"] for s in P["body"] if P["fns"][s["fn"]].get("setup") and not deps0[s["site"]]]
        if sroots and set(sroots) <= set(gen.true_roots(P)):
            case["call"] = "setup"
            case["sel"] = {"R": sroots}
            case.pop("failing", None)
    if case.get("call") != "setup" and setup_call_rate and gen.chance(draw, setup_call_rate):
        case["call"] = "setup"  # dag.setup(target_nodes=...) instead of a call
        case["sel"] = {"T": draw(st.lists(st.sampled_from(sites), min_size=0, max_size=3, unique=True))} if draw(st.booleans()) else None
        case.pop("failing", None)
    if n_debug and draw(st.booleans()):
        case["debug"] = True
        deps_ = gen.deps_of(P)
        dbg = [s["site"] for s in P["body"] if P["fns"][s["fn"]].get("debug") and deps_[s["site"]] and not s["mark"]]
        if dbg and sel_rate and case.get("call") != "setup" and draw(st.booleans()):
            # target the parents of a debug node (plus other nodes): the debug rule pulls the debug node into the
            # sub-graph run, where it competes with the other selected nodes
            d = draw(st.sampled_from(dbg))
            others = [x for x in sites if not P["fns"][[b for b in P["body"] if b["site"] == x][0]["fn"]].get("debug")]
            extra = draw(st.lists(st.sampled_from(others), min_size=0, max_size=3, unique=True)) if others else []
            case["sel"] = {"T": sorted(set(deps_[d]) | set(extra))}
    if case["async"] and draw(st.sampled_from([True, False, False, False])):
        case["small_loop_pool"] = True  # AsyncDAG awaited in a loop whose default executor has a single worker
    if reconf_rate and draw(st.floats(0, 1)) < reconf_rate:
        # a partial reconfiguration after construction: some sites get a new priority only, others a new
        # is_sequential only (attributes that an entry does not mention must keep their value)
        some = draw(st.lists(st.sampled_from(sites), min_size=1, max_size=len(sites), unique=True))
        half = draw(st.integers(0, len(some)))
        if some[:half]:
            case["reconf"] = {s: draw(st.integers(-3, 5)) for s in some[:half]}
        if some[half:]:
            case["reconf_seq"] = {s: draw(st.booleans()) for s in some[half:]}
    if (case.get("reconf") or case.get("reconf_seq")) and gen.chance(draw, 0.25):
        done_ = set(case.get("reconf") or {}) | set(case.get("reconf_seq") or {})
        rest_ = [s for s in sites if s not in done_]
        if rest_:
            # fault at a point: the reconfiguration carries one unusable entry (after all the usable ones)
            case["reconf_bad"] = {"site": draw(st.sampled_from(rest_)), "value": draw(st.sampled_from(["x", 1.5, None]))}
            if draw(st.booleans()):
                case["reconf_bad"]["mc"] = draw(st.integers(1, 5))
            elif draw(st.booleans()):
                case["reconf_bad"] = {"site": None, "mc": draw(st.sampled_from([0, -1, "2"]))}  # the unusable entry is the limit
    early_ok = bool(case.get("reconf_seq")) and case.get("call") != "setup"
    if early_ok and gen.chance(draw, 0.4):
        # history: executor created, THEN is_sequential reconfigured, then the executor is run (priorities are left
        # alone here: an executor keeps the compound priorities of the graph it was created from)
        case["early_exec"] = True
        case.pop("reconf", None)
    if warm_rate and not case.get("failing") and case.get("call") != "setup" and gen.chance(draw, warm_rate) \
            and not any(f.get("setup") for f in P["fns"].values()):
        case["warm"] = True  # the instance has been called once before it is (re)configured and observed
    if case.get("early_exec"):
        nested_rate = 0.0  # (no further derivation of the object that runs)
    compose_ok = (nested_rate and not case.get("sel") and case.get("call") != "setup" and not n_params
                  and all(e[0] == "v" for e in P["ret"][1]) and not any(f.get("setup") or f.get("debug") for f in P["fns"].values()))
    if compose_ok and gen.chance(draw, 0.25):
        case["derive"] = "compose"  # the DAG that runs is compose()d from the described one (all sites as outputs)
        deps_c = gen.deps_of(P)
        free_roots = [s["site"] for s in P["body"] if not deps_c[s["site"]] and s.get("active") is None and s["site"] not in (case.get("failing") or [])]
        if free_roots and len(free_roots) < len(sites) and draw(st.booleans()):
            # some dependency-free sites become INPUTS of the composed DAG (supplied with the values they would produce)
            case["compose_inputs"] = draw(st.lists(st.sampled_from(free_roots), min_size=1, max_size=min(2, len(free_roots)), unique=True))
    elif nested_rate and not case.get("sel") and case.get("call") != "setup" and not n_params and gen.chance(draw, nested_rate):
        case["nested"] = True  # the program is called as a DAG nested in an outer DAG
    elif nested_rate and case.get("call") != "setup" and not n_params and gen.chance(draw, 0.3):
        # the DAG object that runs is derived from the described one: a deep copy, compose() of everything, an executor
        plain_ret = all(e[0] == "v" for e in P["ret"][1])
        # (Hypothesis favours the first elements of sampled_from: the options that are only sometimes possible come first)
        opts = (["compose"] if plain_ret and not case.get("sel") and not any(f.get("setup") or f.get("debug") for f in P["fns"].values()) else [])
        if not case.get("sel") and not case.get("failing") and not any(f.get("setup") or f.get("debug") for f in P["fns"].values()):
            opts.append("cache")
        opts += ["executor", "deepcopy"]
        case["derive"] = draw(st.sampled_from(opts))
        if case["derive"] == "cache":
            case["cached"] = draw(st.lists(st.sampled_from(sites), min_size=1, max_size=max(1, len(sites) // 2), unique=True))
            case["cache_kind"] = draw(st.sampled_from(["target", "deps_of"]))
    if profile_rate and draw(st.floats(0, 1)) < profile_rate:
        case["profile"] = True  # cfg.TAWAZI_PROFILE_ALL_NODES: every node runs inside the profiling context
    if config_rate and draw(st.floats(0, 1)) < config_rate:
        case["via"] = "config"
        if draw(st.booleans()):
            case["build_mc"] = draw(st.integers(1, 5))
        if draw(st.booleans()):
            case["group_conf"] = True  # equal attributes -> one entry keyed by a tag shared by those sites
    if gen.chance(draw, 0.1):
        case["log_debug"] = True  # environment: tawazi's logging is on and a sink listens at DEBUG level
    if gen.chance(draw, 0.1):
        case["warn_error"] = True  # environment: warnings are errors while the DAG runs
    if gen.chance(draw, 0.12):
        case["from_thread"] = True  # environment: the call is made from a thread that is not the main thread
    if spawn_fail_rate and not case.get("failing") and gen.chance(draw, spawn_fail_rate):
        # fault at a point: the pool cannot start its k-th worker thread during the observed execution
        case["spawn_fail"] = draw(st.integers(0, max(0, case["mc"] - 1)))
    return case


@st.composite
def selection_strategy(draw: Any, P: Dict[str, Any], valid_only: bool = True) -> Dict[str, Any]:
    """A valid (R, X, T): R among true roots, X inside the R-part, T inside what is left after exclusion."""
    sites = [s["site"] for s in P["body"]]
    deps = gen.deps_of(P)
    desc = gen.descendants(deps)
    sel: Dict[str, Any] = {}
    cur = set(sites)
    roots = gen.true_roots(P)
    which = draw(st.sampled_from(["T", "X", "R", "TX", "RT", "RX", "RXT", "empty"]))
    if which == "empty":
        # an empty list is a selection too: nothing below no root / nothing needed by no target -> nothing runs
        k = draw(st.sampled_from(["T", "R", "TX"]))
        if k == "TX":
            return {"T": [], "X": []}
        return {k: []}
    if "R" in which and roots:
        sel["R"] = draw(st.lists(st.sampled_from(roots), min_size=1, max_size=len(roots), unique=True))
        cur = set()
        for r in sel["R"]:
            cur |= {r} | desc[r]
    if "X" in which and len(cur) > 1:
        pool = sorted(cur)
        sel["X"] = draw(st.lists(st.sampled_from(pool), min_size=1, max_size=max(1, len(pool) // 2), unique=True))
        for x in sel["X"]:
            cur -= {x} | desc[x]
    if "T" in which and cur:
        pool = sorted(cur)
        sel["T"] = draw(st.lists(st.sampled_from(pool), min_size=1, max_size=len(pool), unique=True))
    return sel


# ------------------------------------------------------------------------------------ exhaustive small scope
def small_scope_cases(dims: Sequence[str], flavours: Sequence[bool] = (False,), mcs: Sequence[int] = (1, 2, 3),
                      resource: str = "thread", max_leaves: int = 5000) -> Any:
    """Every DAG on 4 ordered nodes (64 edge sets) x the chosen dimensions, each with its WHOLE completion-order tree.

    dims may contain: "prio" (priorities in {0..3}^4), "seq" (every subset of sequential nodes), "fail" (each single
    failing node).  Yields sched cases in a fixed order (the caller slices by index)."""
    import itertools

    pairs = [(a, b) for a in range(4) for b in range(a + 1, 4)]
    prio_space = list(itertools.product(range(4), repeat=4)) if "prio" in dims else [(0, 0, 0, 0)]
    seq_space = range(16) if "seq" in dims else [0]
    fail_space = [None, 0, 1, 2, 3] if "fail" in dims else [None]
    for emask in range(64):
        for prios in prio_space:
            for smask in seq_space:
                for fail in fail_space:
                    for mc in mcs:
                        for fl in flavours:
                            fns, body = {}, []
                            for j in range(4):
                                fns[f"n{j}"] = {"kind": "term", "res": resource, "prio": prios[j]}
                                if smask >> j & 1:
                                    fns[f"n{j}"]["seq"] = True
                                args = [["v", f"v{a}"] for bit, (a, b) in enumerate(pairs) if b == j and emask >> bit & 1]
                                body.append({"k": "call", "fn": f"n{j}", "site": gen.site(j), "mark": True, "args": args,
                                             "kwargs": {}, "active": None, "unpack": None, "tags": [], "out": f"v{j}"})
                            P = {"name": "S", "params": [], "fns": fns, "body": body,
                                 "ret": ["T", [["v", f"v{j}"] for j in range(4)]]}
                            c: Dict[str, Any] = {"prog": P, "mc": mc, "async": fl, "mode": "ctl-ex", "max_leaves": max_leaves,
                                                 "small_scope": True}
                            if fail is not None:
                                c["failing"] = [gen.site(fail)]
                            yield c


def run_small_scope(H: Any, dims: Sequence[str], **kw: Any) -> None:
    """Thorough tier: enumerate the small scope completely, split over the shards (no time limit: it is finite)."""
    n = 0
    H.deadline += 100_000
    try:
        for i, c in enumerate(small_scope_cases(dims, **kw)):
            if i % H.nshards != H.shard:
                continue
            H.one(c)
            n += 1
    finally:
        H.deadline -= 100_000
    H.phase_info["small_scope_cases"] = n
    H.phase_info["exhaustive"] = True
    H.phase_info["exhaustive_scope"] = f"all 64 edge sets on 4 ordered nodes x {list(dims)} x {kw or 'max_concurrency 1..3'}, whole completion-order tree of each"
