"""Histories: an interpreter that applies a log of API operations to real tawazi objects and to a Python
model, used both by the Hypothesis state machines (while generating) and by replay (from JSON).

ops (JSON):
  {"op":"call","inst":i,"args":[enc]}                 dag(*args) / await adag(*args)
  {"op":"exec","inst":i,"sel":sel,"args":[enc]}       dag.executor(**sel)(*args)           (fresh executor)
  {"op":"setup","inst":i,"T":[site]|None}             dag.setup(target_nodes=T)
  {"op":"exec_setup","inst":i,"sel":sel}              dag.executor(**sel).setup()
  {"op":"copy","inst":i}                              instances.append(deepcopy(dag))
  {"op":"mkexec","inst":i,"sel":sel}                  executors.append(dag.executor(**sel))
  {"op":"runexec","e":k,"args":[enc]}                 executors[k](*args)   (possibly a second time)
  {"op":"config","inst":i,"conf":{site:{...}},"mc":n} dag.config_from_dict(...)
  {"op":"compose","inst":i,"inputs":[site|param],"outputs":[site],"vals":[enc]}   compose + call the result
"""
import asyncio
import json
import os
import copy
from collections import Counter
from typing import Any, Dict, List, Optional, Tuple

from . import env  # noqa: F401
from . import gen, prog, sched
from .prog import dec
from .schedcase import Model, selection

Finding = Tuple[str, str]


def draw_quietly(dag: Any, include_args: bool = False) -> None:
    """dag.draw() into a scratch file; a missing graphviz executable is not this harness's business.  Drawing is a
    read-only operation: whatever it does must leave the DAG as it was (judged by the callers)."""
    import shutil
    import tempfile

    d = tempfile.mkdtemp(prefix="vlib_draw_")
    try:
        dag.draw(include_args=include_args, filename=os.path.join(d, "g"), view=False)
    except Exception:  # noqa: BLE001 - e.g. graphviz.ExecutableNotFound
        pass
    finally:
        shutil.rmtree(d, ignore_errors=True)


class Inst:
    def __init__(self, built: prog.Built, pre: Dict[str, Any], shadow: Any = None) -> None:
        self.b = built
        self.pre = pre  # setup site -> value computed for this instance
        self.conf_seq: Dict[str, bool] = {}
        self.shadow = shadow  # a DAG built from the same program that only ever sees the config operations


def struct(dag: Any) -> Any:
    """Everything a DAG instance is made of except the results of its setup nodes."""
    from .dump import dump

    nodes, consts, inputs, rets, mc, edges, cp = dump(dag)
    setup_ids = {nid for nid, xn in dag.exec_nodes.items() if xn.setup}
    return (nodes, {k: v for k, v in consts.items() if k not in setup_ids}, inputs, rets, mc, edges, cp)


class Interp:
    def __init__(self, P: Dict[str, Any], is_async: bool, mc: int = 2, count_entries: bool = True, cumulative: bool = True) -> None:
        self.P = P
        self.is_async = is_async
        self.mc = mc
        self.count_entries = count_entries
        self.cumulative = cumulative
        self.M = Model({"prog": P, "mc": mc})
        self.insts: List[Inst] = [Inst(prog.build(P, is_async=is_async, mc=mc), {}, prog.build(P, is_async=is_async, mc=mc).dag)]
        self.execs: List[Dict[str, Any]] = []
        self.n = 0
        self.setup_entries: Dict[Tuple[int, str], int] = {}  # (instance, setup site) -> entries over the history
        self.stats: Counter = Counter()
        self.scratch: List[str] = []  # temp files to delete when the history is over
        self.bad_index = ('["i", ["v", ' in json.dumps(P) and ('], 7]' in json.dumps(P) or '], "zz"]' in json.dumps(P))) \
            or '["i", ["p", ' in json.dumps(P)

    # ------------------------------------------------------------------ helpers
    def _run(self, fn: Any, op_index: int) -> Tuple[Any, Optional[BaseException], sched.Exec]:
        ex = sched.Exec("free")
        ex.op = op_index
        try:
            with ex:
                v = fn()
                if asyncio.iscoroutine(v):
                    v = asyncio.run(v)
            return v, None, ex
        except BaseException as e:  # noqa: BLE001
            if isinstance(e, KeyboardInterrupt):
                raise
            return None, e, ex

    def _kw(self, inst: Inst, sel: Optional[Dict[str, Any]]) -> Dict[str, Any]:
        kw = {}
        ids = inst.b.node_ids()
        for k, name in (("T", "target_nodes"), ("X", "exclude_nodes"), ("R", "root_nodes")):
            if sel and sel.get(k) is not None:
                kw[name] = [ids[s] for s in sel[k]]
        return kw

    def _entries(self, ex: sched.Exec) -> Counter:
        return Counter(self.M.site_of_key.get(e["site"], e["site"]) for e in ex.events if e["k"] == "ENTER")

    def _missing_raises(self, missing: List[str], sel: Optional[Dict[str, Any]], selected: Optional[set]) -> bool:
        """Does omitting these required DAG arguments make the run raise?  Only if the argument's holder node
        is part of the executed graph: always for a whole-DAG run or an exclude-only selection, never with
        root_nodes (the graph then holds descendants of the roots only), with target_nodes iff a selected
        site reads the argument."""
        if not missing:
            return False
        if not sel or all(sel.get(k) is None for k in "TXR"):
            return True
        if sel.get("R") is not None:
            return False
        if sel.get("T") is None:
            return True
        from .composeref import _uses

        u = _uses(self.P)
        return any(set(missing) & u[s]["params"] for s in (selected or set()))

    def _judge_run(self, i: int, inst: Inst, selected: Optional[set], args: List[Any], val: Any, exc: Any, ex: sched.Exec,
                   what: str, setup_only: bool = False, sel: Optional[Dict[str, Any]] = None) -> List[Finding]:
        out: List[Finding] = []
        R = prog.Ref(selected=selected, pre=dict(inst.pre), op=self.n, lenient_missing=True)
        ref_exc = None
        ref_val = None
        try:
            ref_args = [dec(a) for a in args]
            if setup_only:
                ref_args = [None] * sum(1 for _n, d in self.P["params"] if d is None)
            ref_val = prog.ref_run(self.P, ref_args, R)
            if self._missing_raises(R.missing, sel, selected):
                ref_exc = prog.MissingArg(",".join(R.missing))
        except (prog.MissingArg, sched.InjectedError, KeyError, IndexError, TypeError) as e:
            # (KeyError / IndexError: the program indexes a result with a key it does not have - the run fails in the
            # scheduler, not inside a node function)
            ref_exc = e
            if isinstance(e, sched.InjectedError) and self._missing_raises(R.missing, sel, selected):
                ref_exc = prog.MissingArg(",".join(R.missing))
        if setup_only:
            ref_exc = None
        tag = f" [op {self.n}: {what}]"
        if ref_exc is not None:
            if exc is None:
                out.append(("should-have-raised", f"returned {val!r}, the reference raises {type(ref_exc).__name__}" + tag))
            self.stats["failed-ops"] += 1
            return out
        if exc is not None:
            out.append(("op-raised", f"raised {type(exc).__name__}: {str(exc)[:300]}" + tag))
            return out
        if not setup_only and val != ref_val:
            out.append(("value", f"returned {val!r}, reference {ref_val!r}" + tag))
        if self.count_entries:
            got, want = self._entries(ex), Counter(R.executed)
            if got != want:
                out.append(("entries", f"entered {sorted(got.items())}, expected {sorted(want.items())}" + tag))
            for s, n in got.items():
                if self.M.spec.get(s, {}).get("setup"):
                    k = (i, s)
                    self.setup_entries[k] = self.setup_entries.get(k, 0) + n
                    if self.setup_entries[k] > 1 and self.cumulative:
                        out.append(("setup-ran-again", f"setup node {s} of instance {i} entered {self.setup_entries[k]} times over the history" + tag))
        for s in R.executed:
            if self.M.spec[s].get("setup"):
                inst.pre[s] = R.values[s]
        return out

    # ------------------------------------------------------------------ ops
    def apply(self, op: Dict[str, Any]) -> List[Finding]:
        out = self._apply(op)
        if not out:
            # a DAG instance carries no state from one operation to the next except setup results
            for i, inst in enumerate(self.insts):
                if inst.shadow is None:
                    continue
                a, b = struct(inst.b.dag), struct(inst.shadow)
                if a != b:
                    names = ["nodes", "constants", "inputs", "returns", "max_concurrency", "edges", "compound_priority"]
                    diff = [names[k] for k in range(len(a)) if a[k] != b[k]]
                    detail = ""
                    if "compound_priority" in diff:
                        detail = f": {({k: (v, b[6].get(k)) for k, v in a[6].items() if b[6].get(k) != v})}"
                    out.append(("instance-state-changed", f"after op {self.n} ({op['op']}) instance {i} differs from a DAG that only saw the configuration operations in {diff}{detail}"))
                    break
        return out

    def _apply(self, op: Dict[str, Any]) -> List[Finding]:
        self.n += 1
        k = op["op"]
        self.stats[k] += 1
        if k == "copy":
            src = self.insts[op["inst"]]
            try:
                d = copy.deepcopy(src.b.dag)
            except BaseException as e:  # noqa: BLE001
                return [("copy-raised", f"deepcopy raised {type(e).__name__}: {e}")]
            # independent setup state: a mutable setup result held by the copy is a copy, not the original's object
            try:
                ids = src.b.node_ids()
                shared = [s for s in self.M.sites if self.M.spec[s].get("setup") and ids[s] in src.b.dag.results
                          and isinstance(src.b.dag.results[ids[s]], (list, dict, set))
                          and d.results.get(ids[s]) is src.b.dag.results[ids[s]]]
            except Exception:  # noqa: BLE001 - a tree with another layout: not judged here
                shared = []
            if shared:
                return [("copy-shares-setup-state", f"after deepcopy the copy holds the very same (mutable) setup results as instance {op['inst']} for {shared}: a change made through one instance shows in the other")]
            self.insts.append(Inst(prog.Built(self.P, d, src.b.xns, src.b.subs), dict(src.pre),
                                   copy.deepcopy(src.shadow) if src.shadow is not None else None))
            j = len(self.insts) - 1
            for (ii, s), n in list(self.setup_entries.items()):
                if ii == op["inst"]:
                    self.setup_entries[(j, s)] = n
            return []
        i = op.get("inst", 0)
        if k == "runexec":
            return self._runexec(op)
        if k == "cancelrun":
            return self._cancelrun(op)
        inst = self.insts[i]
        if k == "call":
            args = op.get("args", [])
            val, exc, ex = self._run(lambda: inst.b.dag(*[dec(a) for a in args]), self.n)
            return self._judge_run(i, inst, None, args, val, exc, ex, f"call{tuple(args)} on instance {i}")
        if k == "exec":
            sel = op.get("sel")
            args = op.get("args", [])
            selected = selection(self.M, sel)
            val, exc, ex = self._run(lambda: inst.b.dag.executor(**self._kw(inst, sel))(*[dec(a) for a in args]), self.n)
            return self._judge_run(i, inst, selected, args, val, exc, ex, f"executor({sel})({args}) on instance {i}", sel=sel)
        if k == "setup":
            T = op.get("T")
            if T is None:
                selected = {s for s in self.M.sites if self.M.spec[s].get("setup")}
                val, exc, ex = self._run(lambda: inst.b.dag.setup(), self.n)
            else:
                clo = selection(self.M, {"T": T}) or set()
                selected = {s for s in clo if self.M.spec[s].get("setup")}
                ids = inst.b.node_ids()
                val, exc, ex = self._run(lambda: inst.b.dag.setup(target_nodes=[ids[s] for s in T]), self.n)
            return self._judge_run(i, inst, selected, [], val, exc, ex, f"setup(target_nodes={T}) on instance {i}", setup_only=True)
        if k == "exec_setup":
            sel = op.get("sel") or {}
            clo = selection(self.M, {"T": sel.get("T"), "X": sel.get("X")})
            if clo is None:
                clo = set(self.M.sites)
            selected = {s for s in clo if self.M.spec[s].get("setup")}
            val, exc, ex = self._run(lambda: inst.b.dag.executor(**self._kw(inst, sel)).setup(), self.n)
            return self._judge_run(i, inst, selected, [], val, exc, ex, f"executor({sel}).setup() on instance {i}", setup_only=True)
        if k == "mkexec":
            try:
                kw_ = self._kw(inst, op.get("sel"))
                if op.get("bad_cache"):
                    # a cache path whose parent is a regular FILE (tawazi would create missing directories): the nodes
                    # run, writing the cache then fails with an OSError
                    import tempfile

                    fd_, blocker = tempfile.mkstemp(prefix="vlib_notadir_")
                    os.close(fd_)
                    self.scratch.append(blocker)
                    kw_["cache_in"] = os.path.join(blocker, "cache.pkl")
                e = inst.b.dag.executor(**kw_)
            except BaseException as err:  # noqa: BLE001
                return [("op-raised", f"executor({op.get('sel')}) raised {type(err).__name__}: {err}")]
            self.execs.append({"e": e, "inst": i, "sel": op.get("sel"), "runs": 0, "failed": False, "bad_cache": bool(op.get("bad_cache"))})
            return []
        if k == "config":
            conf: Dict[str, Any] = {"nodes": {s.lstrip(prog.MARK): c for s, c in (op.get("conf") or {}).items()}}
            if op.get("mc"):
                conf["max_concurrency"] = op["mc"]
            try:
                inst.b.dag.config_from_dict(conf)
                if inst.shadow is not None:
                    inst.shadow.config_from_dict(conf)
            except BaseException as err:  # noqa: BLE001
                return [("op-raised", f"config_from_dict raised {type(err).__name__}: {err}")]
            return []
        if k == "compose":
            return self._compose(op, inst, i)
        if k == "draw":
            draw_quietly(inst.b.dag, bool(op.get("include_args")))
            return []
        raise ValueError(k)

    def cleanup(self) -> None:
        for f in self.scratch:
            try:
                os.remove(f)
            except OSError:
                pass
        self.scratch = []

    def _absorb_setup(self, i: int, inst: Inst, selected: Optional[set], args: List[Any]) -> None:
        """After a run whose nodes all succeeded: the setup results it computed now belong to the instance."""
        R = prog.Ref(selected=selected, pre=dict(inst.pre), op=self.n, lenient_missing=True)
        try:
            prog.ref_run(self.P, [dec(a) for a in args], R)
        except Exception:  # noqa: BLE001
            return
        for s in R.executed:
            if self.M.spec[s].get("setup"):
                inst.pre[s] = R.values[s]

    def _cancelrun(self, op: Dict[str, Any]) -> List[Finding]:
        """First run of an AsyncDAGExecution inside a task that is cancelled as soon as one node has finished: a
        cancelled run is a failed run (the executor has consumed part of its graph).  If the run completes before the
        cancellation lands it is judged like any first run."""
        rec = self.execs[op["e"]]
        if not self.is_async or rec["runs"] > 0:
            return self._runexec(dict(op, op="runexec"))
        inst = self.insts[rec["inst"]]
        args = op.get("args", [])
        selected = selection(self.M, rec["sel"])
        ex = sched.Exec("free", sleeps={s: 3 for s in self.M.key.values()})
        ex.op = self.n
        state: Dict[str, Any] = {}

        async def main() -> None:
            task = asyncio.get_running_loop().create_task(rec["e"](*[dec(a) for a in args]))
            for _ in range(4000):
                if task.done() or any(e["k"] == "EXIT" for e in ex.events):
                    break
                await asyncio.sleep(0.0002)
            if not task.done():
                task.cancel()
            try:
                state["val"] = await task
            except asyncio.CancelledError:
                state["cancelled"] = True
            except BaseException as e:  # noqa: BLE001
                state["exc"] = e

        try:
            with ex:
                asyncio.run(main())
        except BaseException as e:  # noqa: BLE001
            if isinstance(e, KeyboardInterrupt):
                raise
            state["exc"] = e
        rec["runs"] += 1
        if state.get("cancelled"):
            rec["failed"] = True
            self.stats["cancelled-runs"] += 1
            return []
        if rec.get("bad_cache") and isinstance(state.get("exc"), OSError):
            rec["failed"] = True
            self.stats["cache-write-failed"] += 1
            self._absorb_setup(rec["inst"], inst, selected, args)
            return []
        what = f"executor #{op['e']} ({rec['sel']}) run no. 1 with {args} (cancellation came too late)"
        out = self._judge_run(rec["inst"], inst, selected, args, state.get("val"), state.get("exc"), ex, what, sel=rec["sel"])
        if state.get("exc") is not None:
            rec["failed"] = True
        return out

    def _runexec(self, op: Dict[str, Any]) -> List[Finding]:
        from tawazi.errors import TawaziUsageError

        rec = self.execs[op["e"]]
        inst = self.insts[rec["inst"]]
        args = op.get("args", [])
        selected = selection(self.M, rec["sel"])
        val, exc, ex = self._run(lambda: rec["e"](*[dec(a) for a in args]), self.n)
        first = rec["runs"] == 0
        rec["runs"] += 1
        what = f"executor #{op['e']} ({rec['sel']}) run no. {rec['runs']} with {args}" + (" after a failed run" if rec["failed"] else "")
        if first and rec.get("bad_cache") and isinstance(exc, OSError):
            # the run itself may have been fine, the cache file could not be written: a failed run like any other
            rec["failed"] = True
            self.stats["cache-write-failed"] += 1
            for s in self._entries(ex):
                if self.M.spec.get(s, {}).get("setup") and self.count_entries and self.cumulative:
                    self.setup_entries[(rec["inst"], s)] = self.setup_entries.get((rec["inst"], s), 0) + 1
            self._absorb_setup(rec["inst"], inst, selected, args)
            return []
        if first:
            out = self._judge_run(rec["inst"], inst, selected, args, val, exc, ex, what, sel=rec["sel"])
            if exc is not None:
                rec["failed"] = True
            return out
        # a second run: refuse, or run the complete selection from scratch
        self.stats["rerun-after-failure" if rec["failed"] else "rerun-after-success"] += 1
        if isinstance(exc, TawaziUsageError):
            return []
        out = self._judge_run(rec["inst"], inst, selected, args, val, exc, ex, what, sel=rec["sel"])
        out = [(("rerun-" + b) if b in ("value", "entries", "op-raised") else b, m) for b, m in out]
        if exc is not None:
            rec["failed"] = True
        return out

    # ------------------------------------------------------------------ compose
    def _compose(self, op: Dict[str, Any], inst: Inst, i: int) -> List[Finding]:
        from .composeref import compose_expect, run_composed

        if self.bad_index:
            return []  # (the reference model of compose does not cover programs that index out of range)
        try:
            exp = compose_expect(self.P, self.M, op["inputs"], op["outputs"], [dec(v) for v in op["vals"]], inst.pre, single=op.get("single", False))
        except (TypeError, KeyError, IndexError, prog.RefError):
            # the supplied input value cannot be indexed the way a consumer indexes it: plain Python raises as well
            self.stats["compose-input-not-indexable"] += 1
            return []
        vals_ = [dec(v) for v in op["vals"]]
        omit = False
        if op.get("omit") and not exp.error and op["inputs"] and op["inputs"][-1] in self.M.sites:
            from .composeref import _uses

            u_ = _uses(self.P)
            # the value of the last input (a node of the original DAG) is left out of the call: the composed DAG has no
            # default for it whatever the original DAG has computed so far, so the call is refused - provided a node
            # that runs reads it
            omit = any(op["inputs"][-1] in u_[s_]["sites"] for s_ in exp.needed)
        if omit:
            vals_ = vals_[:-1]
            self.stats["composed-call-omits-node-input"] += 1
        got = run_composed(inst.b, self.P, op["inputs"], op["outputs"], vals_, self.is_async, name=f"C{self.n}", single=op.get("single", False))
        tag = f" [op {self.n}: compose(inputs={op['inputs']}, outputs={op['outputs']})({op['vals'][:len(vals_)]}) on instance {i}]"
        if omit and not exp.error and got.get("compose_exc") is None:
            if got.get("call_exc") is None:
                return [("composed-call-should-have-raised", f"the composed DAG was called without a value for its input {op['inputs'][-1]} and returned {got.get('value')!r}" + tag)]
            return []
        if exp.error:
            if got.get("compose_exc") is None:
                return [("compose-should-have-raised", f"compose accepted a selection of class {exp.error}" + tag)]
            return []
        if got.get("compose_exc") is not None:
            e = got["compose_exc"]
            return [("compose-raised", f"compose raised {type(e).__name__}: {str(e)[:300]}" + tag)]
        if got.get("call_exc") is not None:
            e = got["call_exc"]
            return [("composed-call-raised", f"the composed DAG raised {type(e).__name__}: {str(e)[:300]}" + tag)]
        out = []
        if got["value"] != exp.value:
            out.append(("composed-value", f"the composed DAG returned {got['value']!r}, reference {exp.value!r}" + tag))
        return out
