"""One observed execution of a call-only program ("sched case") and the static model the oracles need.

case := {"prog": P, "mc": int, "async": bool, "mode": "ctl"|"free", "choices": [int], "failing": [site],
         "sleeps": {site: k}, "args": [enc], "sel": {"T":[..]|None,"X":..,"R":..}|None,
         "via": "call"|"executor"|"config", "debug": bool}
"""
import asyncio
from typing import Any, Dict, List, Optional, Set

from . import env  # noqa: F401
from . import gen, prog, sched
from .prog import dec


class Model:
    def __init__(self, case: Dict[str, Any]) -> None:
        P = case["prog"]
        self.P = P
        self.calls = [s for s in P["body"] if s["k"] == "call"]
        self.sites = [s["site"] for s in self.calls]
        self.key = prog.key_of(P)
        self.site_of_key = {k: s for s, k in self.key.items()}
        self.spec = {s["site"]: P["fns"][s["fn"]] for s in self.calls}
        self.deps = gen.deps_of(P)
        self.desc = gen.descendants(self.deps)
        self.anc = gen.ancestors(self.deps)
        self.flagdep: Dict[str, Optional[str]] = {}
        out2site = {s["out"]: s["site"] for s in self.calls}
        for s in self.calls:
            a = s.get("active")
            r = None
            while a is not None and a[0] == "i":
                a = a[1]
            if a is not None and a[0] == "v":
                r = out2site.get(a[1])
            self.flagdep[s["site"]] = r
        self.mc = case.get("mc", 1)
        self.cp = gen.compound_priority(P, case.get("reconf"))
        self.res = {s: self.spec[s].get("res", "thread") for s in self.sites}
        self.seq = {s: bool(self.spec[s].get("seq")) for s in self.sites}
        if case.get("reconf_seq"):
            self.seq.update(case["reconf_seq"])
        self.selected = selection(self, case.get("sel"))
        if case.get("call") == "setup":
            # dag.setup() / executor(sel).setup(): the setup-only part of the selection
            base = self.selected if self.selected is not None else set(self.sites)
            self.selected = {s for s in base if self.spec[s].get("setup")}

    def pooled(self, s: str) -> bool:
        return self.res[s] != "main-thread"


def selection(M: Model, sel: Optional[Dict[str, Any]]) -> Optional[Set[str]]:
    """The documented closure: (R and everything depending on R, or all) minus (X and everything depending
    on X), restricted to (T and ancestors of T, or all).  None = whole DAG."""
    if not sel or all(sel.get(k) is None for k in "TXR"):
        return None
    cur = set(M.sites)
    if sel.get("R") is not None:
        cur = set()
        for r in sel["R"]:
            cur |= {r} | M.desc[r]
    if sel.get("X") is not None:
        for x in sel["X"]:
            cur -= {x} | M.desc[x]
    if sel.get("T") is not None:
        keep: Set[str] = set()
        for t in sel["T"]:
            keep |= {t} | M.anc[t]
        cur &= keep
    return cur


class Outcome:
    def __init__(self) -> None:
        self.ex: Optional[sched.Exec] = None
        self.value: Any = None
        self.exc: Optional[BaseException] = None
        self.ref: Optional[prog.Ref] = None
        self.ref_value: Any = None
        self.ref_exc: Optional[BaseException] = None
        self.built: Any = None
        self.build_exc: Optional[BaseException] = None
        self.invoker: Optional[int] = None
        self.cache_path: Optional[str] = None
        self.reconf_state: Any = None  # outcome of a configuration with an unusable entry (see execute)
        self.mc_shown: Optional[int] = None


def make_executor(b: Any, sel: Optional[Dict[str, Any]]) -> Any:
    """dag.executor(...) for a selection given by sites (whole-DAG executor when sel is empty)."""
    kw = {}
    if sel and any(sel.get(k) is not None for k in "TXR"):
        ids = b.node_ids()
        for k, name in (("T", "target_nodes"), ("X", "exclude_nodes"), ("R", "root_nodes")):
            if sel.get(k) is not None:
                kw[name] = [ids[s] for s in sel[k]]
    return b.dag.executor(**kw)


def execute(case: Dict[str, Any], M: Optional[Model] = None, built: Any = None, pre: Optional[Dict[str, Any]] = None,
            target_override: Any = None) -> Outcome:
    from .env import process_env

    # environment axes: debug logging is on while the DAG is built and run; warnings are errors while it runs
    with process_env(log_debug=bool(case.get("log_debug"))):
        return _execute(case, M, built, pre, target_override)


def _execute(case: Dict[str, Any], M: Optional[Model] = None, built: Any = None, pre: Optional[Dict[str, Any]] = None,
             target_override: Any = None) -> Outcome:
    """target_override: an executor object created earlier in the history (its selection is case["sel"])."""
    import threading

    M = M or Model(case)
    P = case["prog"]
    derive = case.get("derive")
    out = Outcome()
    args = [dec(a) for a in case.get("args", [])]
    cin: List[str] = list(case.get("compose_inputs") or []) if derive == "compose" else []
    if derive == "cache" and built is None and pre is None:
        # the observed run restarts from a cache file written by an earlier (unobserved) run restricted to some
        # targets: those sites and their ancestors are taken from the file, everything else is scheduled as usual
        # (written with cache_deps_of=[...] the file holds the ancestors but not the named sites themselves)
        R0 = prog.Ref()
        try:
            prog.ref_run(P, args, R0)
        except (prog.RefError, prog.MissingArg, KeyError, IndexError):
            derive = None  # the program raises by itself (a bad index ...): run it plainly
        keep: Set[str] = set()
        for t_ in case.get("cached", []):
            keep |= {t_} | M.anc[t_]
        if case.get("cache_kind") == "deps_of":
            keep -= set(case.get("cached", []))
        pre = {s: R0.values[s] for s in keep} if derive else None
    elif cin and built is None and pre is None:
        # compose(inputs=<some sites without dependencies>, outputs=<all other sites>), called with the values those
        # sites would have produced: every other site computes what it computes in the described DAG
        R0 = prog.Ref()
        try:
            prog.ref_run(P, args, R0)
            pre = {s: R0.values[s] for s in cin}
        except (prog.RefError, prog.MissingArg, KeyError, IndexError):
            derive, cin = None, []
    R = prog.Ref(failing=case.get("failing", ()), selected=M.selected, run_debug=bool(case.get("debug")), pre=pre)
    try:
        out.ref_value = prog.ref_run(P, args, R)
    except (sched.InjectedError, prog.MissingArg, prog.RefError, KeyError, IndexError) as e:
        out.ref_exc = e  # KeyError / IndexError: the program indexes a result with a key it does not have
    out.ref = R
    import tawazi

    old_dbg = tawazi.cfg.RUN_DEBUG_NODES
    old_prof = tawazi.cfg.TAWAZI_PROFILE_ALL_NODES
    tawazi.cfg.RUN_DEBUG_NODES = bool(case.get("debug"))
    tawazi.cfg.TAWAZI_PROFILE_ALL_NODES = bool(case.get("profile"))
    try:
        try:
            via = case.get("via", "call")
            gconf = None
            if built is not None:
                b = built
            else:
                PB = P
                if case.get("nested"):
                    # the same program called as a DAG inside an outer DAG (`def outer(*a): return inner(*a)`): its
                    # nodes are spliced into the outer graph with all their attributes, so every oracle applies as is
                    PB = {"name": "OUTER", "params": [list(p_) for p_ in P["params"]], "fns": {}, "ret": ["x", ["v", "w"]],
                          "body": [{"k": "sub", "prog": P, "args": [["p", n_] for n_, _d in P["params"]], "active": None, "out": "w"}]}
                elif via == "config" and case.get("group_conf"):
                    # sites with equal attributes are configured through ONE entry keyed by a tag they share
                    PB, gconf = prog.group_config(P)
                b = prog.build(PB, is_async=bool(case.get("async")), mc=case.get("build_mc", M.mc), decorate_attrs=(via != "config"))
                if PB is not P:
                    b.prog = P
            if case.get("warm") and built is None:
                # an earlier, unobserved call of the same instance (before any reconfiguration): whatever tawazi
                # remembers from it must not influence the observed execution
                try:
                    if case.get("async"):
                        asyncio.run(b.dag(*args))
                    else:
                        b.dag(*args)
                except Exception:  # noqa: BLE001 - e.g. a missing argument; the observed call is judged on its own
                    pass
            if case.get("nested") and built is None:
                b.prog = P
                b.xns = b.subs["w"].xns
            if via == "config" and built is None:
                conf = gconf if gconf is not None else prog.config_dict(P)
                if "build_mc" in case:
                    # the limit in force is the reconfigured one, not the one given at construction
                    conf["max_concurrency"] = M.mc
                b.dag.config_from_dict(conf)
            early_target: Any = None
            if built is None and case.get("early_exec"):
                # the executor object is created BEFORE the reconfiguration below and run after it: the node attributes
                # in force when it runs are the reconfigured ones (case["early_exec"] is only drawn for is_sequential)
                early_target = make_executor(b, case.get("sel"))
            if built is None and (case.get("reconf") or case.get("reconf_seq")):
                nodes: Dict[str, Any] = {}
                for s, p in (case.get("reconf") or {}).items():
                    nodes.setdefault(s.lstrip(prog.MARK), {})["priority"] = p
                for s, q in (case.get("reconf_seq") or {}).items():
                    nodes.setdefault(s.lstrip(prog.MARK), {})["is_sequential"] = q
                bad = case.get("reconf_bad")
                if bad and not case.get("nested"):
                    # fault at a point: the LAST entry of this configuration is unusable, so the call is expected to
                    # raise after it has looked at every other entry.  Refused or not, each attribute the API shows
                    # afterwards is either the old or the new one (all old / all new decides the model, anything else is
                    # reported) - never a third value
                    conf2: Dict[str, Any] = {"nodes": dict(nodes)}
                    if bad.get("site") is not None:
                        conf2["nodes"][bad["site"].lstrip(prog.MARK)] = {"priority": bad["value"]}
                    if bad.get("mc") is not None:
                        conf2["max_concurrency"] = bad["mc"]  # (an unusable limit - 0, -1, "2" - when there is no bad["site"])
                    ids_rb = b.node_ids()
                    old_attr = {s_: (b.dag.get_node_by_id(i_).priority, b.dag.get_node_by_id(i_).is_sequential) for s_, i_ in ids_rb.items()}
                    old_mc = b.dag.max_concurrency
                    try:
                        b.dag.config_from_dict(conf2)
                        out.reconf_state = "accepted"
                    except Exception as e_:  # noqa: BLE001
                        new_attr = dict(old_attr)
                        for s_, p_ in (case.get("reconf") or {}).items():
                            new_attr[s_] = (p_, new_attr[s_][1])
                        for s_, q_ in (case.get("reconf_seq") or {}).items():
                            new_attr[s_] = (new_attr[s_][0], q_)
                        shown = {s_: (b.dag.get_node_by_id(i_).priority, b.dag.get_node_by_id(i_).is_sequential) for s_, i_ in ids_rb.items()}
                        mc_shown = b.dag.max_concurrency
                        if mc_shown not in (old_mc, bad.get("mc", old_mc)) or any(shown[s_] not in (old_attr[s_], new_attr[s_]) for s_ in shown):
                            out.reconf_state = ("third-state", f"{type(e_).__name__}: max_concurrency {old_mc} -> {mc_shown}, "
                                                f"attributes {({s_: (old_attr[s_], shown[s_]) for s_ in shown if shown[s_] not in (old_attr[s_], new_attr[s_])})}")
                        elif shown == new_attr and shown != old_attr:
                            out.reconf_state = "refused-new"
                        elif shown == old_attr:
                            out.reconf_state = "refused-old"
                        else:
                            out.reconf_state = "refused-mixed"
                        out.mc_shown = mc_shown
                    if not isinstance(b.dag.max_concurrency, int) or b.dag.max_concurrency < 1:
                        b.dag.max_concurrency = old_mc  # an unusable limit was stored as given: put a usable one back
                else:
                    b.dag.config_from_dict({"nodes": nodes})
            if built is None and derive == "deepcopy":
                import copy as _copy

                b = prog.Built(b.prog, _copy.deepcopy(b.dag), b.xns, b.subs)  # a deep copy is a DAG like the original
            elif built is None and derive == "compose":
                # compose() without inputs and with every site as output: the same computation, a derived DAG object
                ids_ = b.node_ids()
                b = prog.Built(b.prog, b.dag.compose("CMP", [ids_[s] for s in cin], [ids_[s] for s in M.sites if s not in cin],
                                                     max_concurrency=M.mc), b.xns, b.subs)
                if cin:
                    args = [pre[s] for s in cin]  # type: ignore[index]
            out.built = b
            target: Any = b.dag
            if derive == "cache" and built is None:
                import os
                import tempfile

                fd, cpath = tempfile.mkstemp(prefix="vlib_sched_cache_", suffix=".pkl")
                os.close(fd)
                try:
                    ids_ = b.node_ids()
                    named = [ids_[s] for s in case.get("cached", [])]
                    first = (b.dag.executor(cache_deps_of=named, cache_in=cpath) if case.get("cache_kind") == "deps_of"
                             else b.dag.executor(target_nodes=named, cache_in=cpath))
                    if case.get("async"):
                        asyncio.run(first(*args))
                    else:
                        first(*args)
                    target = b.dag.executor(from_cache=cpath)
                    out.cache_path = cpath
                except BaseException:
                    os.remove(cpath)
                    raise
            if derive == "executor" and not (case.get("sel") and any(case["sel"].get(k) is not None for k in "TXR")) \
                    and case.get("call") != "setup":
                target = b.dag.executor()  # dag.executor()(...) instead of dag(...)
            sel = case.get("sel")
            if case.get("call") == "setup":
                ids = b.node_ids()
                tn = None if not sel or sel.get("T") is None else [ids[x] for x in sel["T"]]
                skw: Dict[str, Any] = {"target_nodes": tn}
                if sel and sel.get("R") is not None:
                    skw["root_nodes"] = [ids[x] for x in sel["R"]]
                dag_ = b.dag
                if case.get("async"):
                    async def _setup_async(*_a: Any) -> Any:
                        return await dag_.setup(**skw)

                    target = _setup_async
                else:
                    target = lambda *_a: dag_.setup(**skw)  # noqa: E731
                sel = None
            if target_override is not None:
                target = target_override
            elif early_target is not None:
                target = early_target
            elif sel and any(sel.get(k) is not None for k in "TXR"):
                target = make_executor(b, sel)
        except BaseException as e:  # noqa: BLE001 - reported by the oracles
            out.build_exc = e
            return out
        ex = sched.Exec(case.get("mode", "free"), choices=case.get("choices", ()), failing=case.get("failing", ()),
                        sleeps=case.get("sleeps"), spawn_fail=case.get("spawn_fail"))
        out.ex = ex
        def _observed_call() -> None:
            out.invoker = threading.get_ident()
            try:
                with ex:
                    if case.get("async"):
                        async def main() -> Any:
                            if case.get("small_loop_pool"):
                                # the user's loop has a tiny default executor: tawazi has its own pool, so this must not matter
                                asyncio.get_running_loop().set_default_executor(sched.CtlPool(max_workers=1))
                            try:
                                return await target(*args)
                            finally:
                                # the user's loop keeps running after the await (also after a failed one): whatever
                                # tawazi left scheduled on it gets its turn
                                for _ in range(4):
                                    await asyncio.sleep(0)

                        out.value = asyncio.run(main())
                    else:
                        out.value = target(*args)
                    if cin and isinstance(out.value, tuple):
                        # put the supplied input values back at their positions: one entry per site, as in the reference
                        it = iter(out.value)
                        out.value = tuple(pre[s] if s in cin else next(it) for s in M.sites)  # type: ignore[index]
            except BaseException as e:  # noqa: BLE001
                if isinstance(e, KeyboardInterrupt):
                    raise
                out.exc = e

        from .env import process_env as _penv

        _warn = _penv(warn_error=bool(case.get("warn_error")))
        _warn.__enter__()
        if case.get("from_thread"):
            # environment: the DAG is called from a thread that is not the process's main thread (the invoking
            # thread is that thread: main-thread nodes run there, asyncio.run creates its loop there)
            th_ = threading.Thread(target=_observed_call, name="vlib-caller")
            th_.start()
            th_.join()
        else:
            _observed_call()
        _warn.__exit__(None, None, None)
    finally:
        if out.cache_path:
            import os

            try:
                os.remove(out.cache_path)
            except OSError:
                pass
        tawazi.cfg.RUN_DEBUG_NODES = old_dbg
        tawazi.cfg.TAWAZI_PROFILE_ALL_NODES = old_prof
    return out
