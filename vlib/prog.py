"""Program IR for describing functions, its two interpretations (tawazi build / plain Python reference).

IR (all JSON):

Program := {"name": str, "params": [[name, null | {"d": enc}]...], "fns": {fname: FnSpec},
            "body": [Stmt...], "ret": Ret}
FnSpec  := {"kind": term|tup|dict|int|id|pack|const|bomb, "n": int?, "val": enc?, "prio": int, "seq": bool,
            "res": "thread"|"async-thread"|"main-thread", "setup": bool, "debug": bool, "unpack": int|null,
            "stamp": bool?}
Stmt    := {"k":"call","fn":f,"site":s,"mark":bool,"args":[Expr],"kwargs":{k:Expr},"active":Expr|null,
            "unpack":int|null,"tags":[str],"out":name}
         | {"k":"op","op":name,"a":Expr,"b":Expr|null,"out":name}
         | {"k":"logic","op":"and_"|"or_"|"not_","args":[Expr],"out":name}
         | {"k":"sub","prog":Program,"args":[Expr],"active":Expr|null,"out":name}
Expr    := ["v",name] | ["p",name] | ["c",enc] | ["i",Expr,key]
Ret     := null | ["x",Expr] | ["T",[Expr]] | ["L",[Expr]] | ["D",{k:Expr}]

Node functions are free-algebra constructors: the value of a call is a short digest of (function, site,
received arguments), so value equality with the reference run shows that every node received exactly
the values of its dependencies.
"""
import hashlib
import inspect
import operator
import zlib
from typing import Any, Callable, Dict, List, Optional, Tuple

from . import env  # noqa: F401  (imports tawazi from $TAWAZI_SRC with the interposers installed)
from . import sched
from .sched import InjectedError, current_exec

MARK = "@"
LIVE: Dict[str, Any] = {}  # run-time objects for the liveness probes of C17


# ---------------------------------------------------------------------------- values
class Mask:
    """A user object whose truth value is NOT derivable from its length (like a numpy array holding one zero,
    or a mask type): bool(Mask(False, 1)) is False although len() == 1, bool(Mask(True, 0)) is True."""

    def __init__(self, truth: bool, n: int) -> None:
        self.truth, self.n = bool(truth), int(n)

    def __bool__(self) -> bool:
        return self.truth

    def __len__(self) -> int:
        return self.n

    def __eq__(self, other: Any) -> bool:
        return isinstance(other, Mask) and (self.truth, self.n) == (other.truth, other.n)

    def __hash__(self) -> int:
        return hash(("Mask", self.truth, self.n))

    def __repr__(self) -> str:
        return f"Mask({self.truth}, {self.n})"


class Hollow:
    """A user container that is FALSY although indexing it yields values (a lazily filled registry, an empty
    defaultdict with a default factory, a proxy with __len__() == 0): `bool(h)` is False, `h[i]` is items[i]."""

    def __init__(self, items: Any) -> None:
        self.items = tuple(items)

    def __len__(self) -> int:
        return 0

    def __getitem__(self, i: Any) -> Any:
        return self.items[i]

    def __eq__(self, other: Any) -> bool:
        return isinstance(other, Hollow) and other.items == self.items

    def __hash__(self) -> int:
        return hash(("Hollow", self.items))

    def __repr__(self) -> str:
        return f"Hollow{self.items!r}"


class Grid:
    """A user container indexed by a TUPLE key: g[i, j] is a cell, which is not the same thing as g[i][j]
    (g[i] is a row object).  Stands for mappings keyed by tuples and for multi-axis indexing."""

    def __init__(self, tag: str) -> None:
        self.tag = tag

    def __getitem__(self, k: Any) -> Any:
        if isinstance(k, tuple):
            return ("cell", self.tag) + k
        return _Row(self.tag, k)

    def __eq__(self, other: Any) -> bool:
        return isinstance(other, Grid) and other.tag == self.tag

    def __hash__(self) -> int:
        return hash(("Grid", self.tag))

    def __repr__(self) -> str:
        return f"Grid({self.tag})"


class NoPickle:
    """A value that cannot be pickled (like an object holding a lock or an open connection)."""

    def __init__(self, tag: str) -> None:
        self.tag = tag

    def __eq__(self, other: Any) -> bool:
        return isinstance(other, NoPickle) and other.tag == self.tag

    def __hash__(self) -> int:
        return hash(("NoPickle", self.tag))

    def __repr__(self) -> str:
        return f"NoPickle({self.tag})"

    def __reduce__(self) -> Any:
        raise TypeError("cannot pickle 'NoPickle' object")

    def __deepcopy__(self, memo: Any) -> "NoPickle":
        return NoPickle(self.tag)


class NoCopy:
    """A value that can be neither deep-copied nor pickled (it owns a lock, a socket ...)."""

    def __init__(self, tag: str) -> None:
        self.tag = tag

    def __eq__(self, other: Any) -> bool:
        return isinstance(other, NoCopy) and other.tag == self.tag

    def __hash__(self) -> int:
        return hash(("NoCopy", self.tag))

    def __repr__(self) -> str:
        return f"NoCopy({self.tag})"

    def __reduce__(self) -> Any:
        raise TypeError("cannot pickle 'NoCopy' object")

    def __deepcopy__(self, memo: Any) -> Any:
        raise TypeError("cannot deep-copy 'NoCopy' object")


class _Row:
    def __init__(self, tag: str, i: Any) -> None:
        self.tag, self.i = tag, i

    def __getitem__(self, j: Any) -> Any:
        return ("row-item", self.tag, self.i, j)

    def __eq__(self, other: Any) -> bool:
        return isinstance(other, _Row) and (other.tag, other.i) == (self.tag, self.i)

    def __hash__(self) -> int:
        return hash(("Row", self.tag, self.i))

    def __repr__(self) -> str:
        return f"Row({self.tag}, {self.i})"


def enc(v: Any) -> Any:
    if isinstance(v, Mask):
        return {"M": [v.truth, v.n]}
    if isinstance(v, Hollow):
        return {"H": [enc(x) for x in v.items]}
    if isinstance(v, tuple):
        return {"T": [enc(x) for x in v]}
    if isinstance(v, list):
        return {"L": [enc(x) for x in v]}
    if isinstance(v, dict):
        return {"D": {k: enc(x) for k, x in v.items()}}
    return v


def dec(j: Any) -> Any:
    if isinstance(j, dict):
        if "M" in j:
            return Mask(j["M"][0], j["M"][1])
        if "H" in j:
            return Hollow(dec(x) for x in j["H"])
        if "T" in j:
            return tuple(dec(x) for x in j["T"])
        if "L" in j:
            return [dec(x) for x in j["L"]]
        if "D" in j:
            return {k: dec(x) for k, x in j["D"].items()}
        raise ValueError(j)
    if isinstance(j, list):  # tolerated: plain json list == tuple-less list
        return [dec(x) for x in j]
    return j


def _canon(v: Any) -> str:
    return repr(v)


def term(fn: str, args: Tuple[Any, ...], kwargs: Dict[str, Any]) -> Tuple[str, str]:
    payload = _canon((fn, tuple(args), tuple(sorted(kwargs.items())))).encode()
    return (fn, hashlib.blake2s(payload, digest_size=6).hexdigest())


def compute(fn: str, spec: Dict[str, Any], site: Optional[str], args: Tuple[Any, ...], kwargs: Dict[str, Any], op: int = 0) -> Any:
    kind = spec["kind"]
    full = ((site,) + tuple(args)) if site else tuple(args)
    if kind == "term":
        t = term(fn, full, kwargs)
        if spec.get("stamp"):
            return t + (op,)
        return t
    if kind == "tup":
        return tuple(term(f"{fn}#{i}", full, kwargs) for i in range(spec["n"]))
    if kind == "dict":
        return {
            "a": term(fn + "#a", full, kwargs),
            "b": [term(fn + "#b0", full, kwargs), (term(fn + "#b10", full, kwargs), term(fn + "#b11", full, kwargs))],
        }
    if kind == "mlist":
        t = term(fn, full, kwargs)
        return [t + (op,)] if spec.get("stamp") else [t]
    if kind == "str":
        return "s" + term(fn, full, kwargs)[1][:4]
    if kind == "grid":
        return Grid(term(fn, full, kwargs)[1])
    if kind == "nopickle":
        return NoPickle(term(fn, full, kwargs)[1])
    if kind == "nocopy":
        return NoCopy(term(fn, full, kwargs)[1] + (f"#{op}" if spec.get("stamp") else ""))
    if kind == "int":
        return zlib.crc32(_canon((fn, full, tuple(sorted(kwargs.items())))).encode()) % 6 + 1
    if kind == "id":
        return args[0]
    if kind == "pack":
        return tuple(args)
    if kind == "hpack":
        return Hollow(args)
    if kind == "const":
        return dec(spec["val"])
    if kind == "waitev":
        # liveness probe: blocks until a sibling coroutine of the same event loop sets the event
        ok = LIVE["event"].wait(LIVE.get("timeout", 20.0))
        if not ok:
            LIVE["timed_out"] = True
        return ("waitev", bool(ok))
    if kind == "barrier":
        try:
            LIVE["barrier"].wait(LIVE.get("timeout", 20.0))
            ok = True
        except Exception:  # BrokenBarrierError
            ok = False
            LIVE["timed_out"] = True
        return term(fn, full, kwargs) + (ok,)
    if kind == "bomb":
        if args and args[0] == "BOOM":
            raise InjectedError(site or fn)
        return term(fn, full, kwargs)
    raise ValueError(kind)


# ---------------------------------------------------------------------------- node functions
def make_body(fn: str, spec: Dict[str, Any]) -> Callable[..., Any]:
    def body(*args: Any, **kwargs: Any) -> Any:
        if args and isinstance(args[0], str) and args[0].startswith(MARK):
            site, data = args[0], tuple(args[1:])
        else:
            site, data = None, tuple(args)
        ex = current_exec()
        key = site or fn
        if ex is None:
            return compute(fn, spec, site, data, kwargs)
        tok = ex.node_enter(fn, key, data, dict(kwargs))
        try:
            ex.node_gate(key, tok)
            if key in ex.failing:
                if zlib.crc32(key.encode()) & 1:
                    # the user's exception has an explicit cause of its own (raise ... from low_level): what tawazi's
                    # exception carries as its cause is still the exception the node raised
                    raise InjectedError(key) from ValueError("low-level reason of " + key)
                raise InjectedError(key)
            val = compute(fn, spec, site, data, kwargs, ex.op)
        except BaseException:
            ex.node_exit(key, ok=False)
            raise
        ex.node_exit(key, ok=True)
        return val

    body.__name__ = spec.get("pyname", fn)  # (__name__ may be shared by functions whose __qualname__ differs)
    # user functions are often defined inside other functions: their qualified name (which tawazi uses as the
    # node id) then contains dots and angle brackets
    body.__qualname__ = spec.get("qual", fn)
    body.__module__ = "vlib.generated"
    body.__annotations__ = {}  # tawazi inspects the return annotation when unpack_to is set
    return body


OPS: Dict[str, Callable[..., Any]] = {
    "add": operator.add, "sub": operator.sub, "mul": operator.mul, "truediv": operator.truediv,
    "floordiv": operator.floordiv, "mod": operator.mod, "pow": operator.pow, "lshift": operator.lshift,
    "rshift": operator.rshift, "and": operator.and_, "or": operator.or_, "xor": operator.xor,
    "lt": operator.lt, "le": operator.le, "eq": operator.eq, "ne": operator.ne, "gt": operator.gt,
    "ge": operator.ge, "neg": operator.neg, "pos": operator.pos, "abs": operator.abs,
    "invert": operator.invert, "divmod": divmod,
}
UNARY = {"neg", "pos", "abs", "invert"}


# ---------------------------------------------------------------------------- build under tawazi
class TagResolutionError(KeyError):
    """dag.get_nodes_by_tag(<the tag only one call site carries>) did not return exactly that node.  Every call site
    of a generated program carries a tag of its own, so this is a misbehaviour of the public tag API and not of the
    harness (which resolves all node ids through it)."""


class Built:
    def __init__(self, prog: Dict[str, Any], dag: Any, xns: Dict[str, Any], subs: Dict[str, "Built"]):
        self.prog = prog
        self.dag = dag
        self.xns = xns
        self.subs = subs

    def node_id(self, site: str) -> str:
        nodes = self.dag.get_nodes_by_tag(site.lstrip(MARK))
        if len(nodes) != 1:
            raise TagResolutionError(f"site {site} resolves to {len(nodes)} nodes")
        return nodes[0].id  # type: ignore[no-any-return]

    def node_ids(self) -> Dict[str, str]:
        return {s: self.node_id(s) for s in sites_of(self.prog, deep=False)}


def key_of(P: Dict[str, Any]) -> Dict[str, str]:
    """site -> the key under which the site shows up in traces (the site marker, or the function name
    for unmarked sites)."""
    return {st["site"]: (st["site"] if st.get("mark", True) else st["fn"]) for st in P["body"] if st["k"] == "call"}


def all_calls(P: Dict[str, Any]) -> List[Tuple[Dict[str, Any], Dict[str, Any]]]:
    """(statement, function spec) of every call site, nested DAGs included."""
    out = []
    for st in P["body"]:
        if st["k"] == "call":
            out.append((st, P["fns"][st["fn"]]))
        elif st["k"] == "sub":
            out.extend(all_calls(st["prog"]))
    return out


def sites_of(P: Dict[str, Any], deep: bool = True) -> List[str]:
    out = []
    for st in P["body"]:
        if st["k"] == "call":
            out.append(st["site"])
        elif st["k"] == "sub" and deep:
            out.extend(sites_of(st["prog"], True))
    return out


def _key(k: Any) -> Any:
    """An index key of the IR: a list (JSON) stands for a tuple key, x[i, j]."""
    return tuple(k) if isinstance(k, (list, tuple)) else k


def _ev_build(e: Any, env: Dict[str, Any]) -> Any:
    tag = e[0]
    if tag == "v" or tag == "p":
        return env[e[1]]
    if tag == "c":
        return dec(e[1])
    if tag == "i":
        return _ev_build(e[1], env)[_key(e[2])]
    raise ValueError(e)


def _ret_eval(ret: Any, env: Dict[str, Any], ev: Callable[[Any, Dict[str, Any]], Any]) -> Any:
    if ret is None:
        return None
    k = ret[0]
    if k == "x":
        return ev(ret[1], env)
    if k == "T":
        return tuple(ev(x, env) for x in ret[1])
    if k == "L":
        return [ev(x, env) for x in ret[1]]
    if k == "D":
        return {kk: ev(x, env) for kk, x in ret[1].items()}
    if k == "NT":
        # `return Stats(low=a, high=b)`: a namedtuple IS a tuple (the DAG returns an equal tuple)
        import collections

        return collections.namedtuple("RT", [f"f{i}" for i in range(len(ret[1]))])(*[ev(x, env) for x in ret[1]])
    if k == "OD":
        import collections

        return collections.OrderedDict((kk, ev(x, env)) for kk, x in ret[1].items())
    raise ValueError(ret)


def build(P: Dict[str, Any], *, is_async: bool = False, mc: int = 1, decorate_attrs: bool = True,
          on_stmt: Optional[Callable[[int], None]] = None, xns_out: Optional[Dict[str, Any]] = None,
          shared_subs: Optional[Dict[str, "Built"]] = None) -> Built:
    """Build the DAG described by P.  ``decorate_attrs=False`` leaves priority / is_sequential at their
    defaults so that they can be applied later through config_from_*."""
    import tawazi
    from tawazi import Resource

    subs: Dict[str, Built] = {}
    for st in P["body"]:
        if st["k"] == "sub":
            if shared_subs and st["prog"]["name"] in shared_subs:
                subs[st["out"]] = shared_subs[st["prog"]["name"]]  # an inner DAG object built earlier (and used elsewhere)
            else:
                subs[st["out"]] = build(st["prog"], is_async=False, mc=mc, decorate_attrs=decorate_attrs)

    xns: Dict[str, Any] = {}
    for fn, spec in P["fns"].items():
        kw: Dict[str, Any] = dict(
            debug=bool(spec.get("debug")),
            setup=bool(spec.get("setup")),
            unpack_to=spec.get("unpack"),
            resource=Resource(spec.get("res", "thread")),
        )
        if decorate_attrs:
            kw["priority"] = spec.get("prio", 0)
            kw["is_sequential"] = bool(spec.get("seq"))
        f_body: Any = make_body(fn, spec)
        if spec.get("bound"):
            # kind of callable: a bound method (of an instance of a class made for this function; two functions that
            # share their qualified name are the `run` methods of two instances of look-alike classes)
            def run(self: Any, *a: Any, **k: Any) -> Any:
                return self._body(*a, **k)

            run.__name__, run.__qualname__, run.__module__ = f_body.__name__, f_body.__qualname__, f_body.__module__
            run.__annotations__ = {}
            inst = type("Holder", (), {"run": run})()
            inst._body = f_body
            f_body = inst.run
        if spec.get("partial"):
            import functools

            f_body = functools.partial(f_body)  # a documented kind of node function: named after the wrapped function
        xns[fn] = tawazi.xn(f_body, **kw)

    logic = {"and_": tawazi.and_, "or_": tawazi.or_, "not_": tawazi.not_}

    def describe(*params: Any) -> Any:
        env: Dict[str, Any] = {name: val for (name, _d), val in zip(P["params"], params)}
        for idx, st in enumerate(P["body"]):
            if on_stmt is not None:
                on_stmt(idx)  # statement boundary: the harness may pause the description here
            k = st["k"]
            if k == "call":
                args = [_ev_build(a, env) for a in st["args"]]
                if st.get("mark", True):
                    args.insert(0, st["site"])
                kwargs = {kk: _ev_build(v, env) for kk, v in st["kwargs"].items()}
                tags = tuple([st["site"].lstrip(MARK)] + list(st.get("tags") or []))
                kwargs["twz_tag"] = tags if len(tags) > 1 else tags[0]
                if st.get("active") is not None:
                    kwargs["twz_active"] = _ev_build(st["active"], env)
                if st.get("unpack") is not None:
                    kwargs["twz_unpack_to"] = st["unpack"]
                env[st["out"]] = xns[st["fn"]](*args, **kwargs)
            elif k == "op":
                a = _ev_build(st["a"], env)
                if st["op"] in UNARY:
                    env[st["out"]] = OPS[st["op"]](a)
                else:
                    env[st["out"]] = OPS[st["op"]](a, _ev_build(st["b"], env))
            elif k == "logic":
                env[st["out"]] = logic[st["op"]](*[_ev_build(a, env) for a in st["args"]])
            elif k == "sub":
                args = [_ev_build(a, env) for a in st["args"]]
                if st.get("active") is not None:
                    env[st["out"]] = subs[st["out"]].dag(*args, twz_active=_ev_build(st["active"], env))
                else:
                    env[st["out"]] = subs[st["out"]].dag(*args)
            else:
                raise ValueError(k)
        return _ret_eval(P["ret"], env, _ev_build)

    describe.__name__ = describe.__qualname__ = P["name"]
    params = []
    for name, d in P["params"]:
        if d is None:
            params.append(inspect.Parameter(name, inspect.Parameter.POSITIONAL_OR_KEYWORD))
        else:
            params.append(inspect.Parameter(name, inspect.Parameter.POSITIONAL_OR_KEYWORD, default=dec(d["d"])))
    describe.__signature__ = inspect.Signature(params)  # type: ignore[attr-defined]
    d = tawazi.dag(describe, max_concurrency=mc, is_async=is_async)
    return Built(P, d, xns, subs)


def config_dict(P: Dict[str, Any], by: str = "tag") -> Dict[str, Any]:
    """The configuration equivalent to the decorator attributes of P (top level only), keyed by site tag."""
    nodes = {}
    for st in P["body"]:
        if st["k"] == "call":
            spec = P["fns"][st["fn"]]
            nodes[st["site"].lstrip(MARK)] = {"priority": spec.get("prio", 0), "is_sequential": bool(spec.get("seq"))}
    return {"nodes": nodes}


def group_config(P: Dict[str, Any]) -> Tuple[Dict[str, Any], Dict[str, Any]]:
    """The same configuration, but call sites whose attributes are equal share ONE entry, keyed by a tag that all
    of them carry (tawazi applies an entry given for a tag to every node that has the tag).  Returns (a copy of P
    whose sites carry the group tags, the configuration)."""
    import copy as _copy

    P2 = _copy.deepcopy(P)
    groups: Dict[Tuple[int, bool], List[Dict[str, Any]]] = {}
    for st in P2["body"]:
        if st["k"] == "call":
            spec = P2["fns"][st["fn"]]
            groups.setdefault((spec.get("prio", 0), bool(spec.get("seq"))), []).append(st)
    nodes: Dict[str, Any] = {}
    for k, ((prio, seq), sts) in enumerate(sorted(groups.items(), key=lambda kv: (kv[0][0], kv[0][1]))):
        entry = {"priority": prio, "is_sequential": seq}
        if len(sts) >= 2:
            for st in sts:
                st["tags"] = list(st.get("tags") or []) + [f"grp{k}"]
            nodes[f"grp{k}"] = entry
        else:
            nodes[sts[0]["site"].lstrip(MARK)] = entry
    return P2, {"nodes": nodes}


# ---------------------------------------------------------------------------- reference interpretation
class RefError(Exception):
    """The reference evaluation itself is outside the fragment (e.g. division by zero)."""


class MissingArg(Exception):
    pass


class Ref:
    def __init__(
        self,
        failing: Any = (),
        selected: Optional[set] = None,
        pre: Optional[Dict[str, Any]] = None,
        substitute: Optional[Dict[str, Any]] = None,
        op: int = 0,
        stamps: Optional[Dict[str, int]] = None,
        run_debug: bool = True,
        lenient_missing: bool = False,
    ) -> None:
        self.lenient_missing = lenient_missing
        self.missing: List[str] = []
        self.failing = set(failing)
        self.selected = selected
        self.pre = pre or {}
        self.substitute = substitute or {}
        self.op = op
        self.stamps = stamps if stamps is not None else {}
        self.obs: List[Tuple[str, str, Tuple[Any, ...], Tuple[Any, ...]]] = []
        self.values: Dict[str, Any] = {}  # site -> value (top level and nested)
        self.executed: List[str] = []
        self.skipped: List[str] = []
        self.run_debug = run_debug


NOTRUN = object()


def _ev_ref(e: Any, env: Dict[str, Any]) -> Any:
    tag = e[0]
    if tag == "v" or tag == "p":
        return env[e[1]]
    if tag == "c":
        return dec(e[1])
    if tag == "i":
        base = _ev_ref(e[1], env)
        if base is NOTRUN:
            return NOTRUN
        if isinstance(base, _Lazy):
            return base.index(e[2])
        return base[_key(e[2])]
    raise ValueError(e)


class _Lazy:
    """Result of a call bound with unpacking whose node did not run: every element reads as not-run."""

    def index(self, _k: Any) -> Any:
        return NOTRUN


def _val(x: Any) -> Any:
    return None if (x is NOTRUN or isinstance(x, _Lazy)) else x


def ref_run(P: Dict[str, Any], args: Any, R: Optional[Ref] = None, active: bool = True, top: bool = True) -> Any:
    """Evaluate P as plain Python.  Returns the value of the describing function."""
    R = R or Ref()
    env: Dict[str, Any] = {}
    args = list(args)
    if len(args) > len(P["params"]):
        raise TypeError("too many arguments")
    for i, (name, d) in enumerate(P["params"]):
        if name in R.substitute and top:
            env[name] = R.substitute[name]
        elif i < len(args):
            env[name] = args[i]
        elif d is not None:
            env[name] = dec(d["d"])
        elif R.lenient_missing:
            env[name] = None
            R.missing.append(name)
        else:
            raise MissingArg(name)
    for st in P["body"]:
        k = st["k"]
        if k == "call":
            site = st["site"]
            spec = P["fns"][st["fn"]]
            if top and site in R.substitute:
                v = R.substitute[site]
                R.values[site] = v
                env[st["out"]] = _bind_unpack(v, st, spec)
                continue
            if site in R.pre:
                v = R.pre[site]
                R.values[site] = v
                env[st["out"]] = _bind_unpack(v, st, spec)
                continue
            selected = R.selected is None or site in R.selected
            if spec.get("debug") and not R.run_debug:
                selected = False
            if not selected:
                R.values[site] = NOTRUN
                env[st["out"]] = _bind_unpack(NOTRUN, st, spec)
                continue
            is_setup = bool(spec.get("setup"))
            flag = True if st.get("active") is None else bool(_val(_ev_ref(st["active"], env)))
            if not (active or is_setup) or not flag:
                R.skipped.append(site)
                R.values[site] = None
                env[st["out"]] = None  # the fragment never unpacks a possibly deactivated call
                continue
            a = tuple(_val(_ev_ref(x, env)) for x in st["args"])
            kw = {kk: _val(_ev_ref(x, env)) for kk, x in st["kwargs"].items()}
            key = site if st.get("mark", True) else st["fn"]
            R.obs.append((st["fn"], key, a, tuple(sorted(kw.items(), key=lambda t: t[0]))))
            R.executed.append(site)
            if site in R.failing:
                raise InjectedError(site)
            opn = R.stamps.setdefault(site, R.op) if spec.get("stamp") else 0
            v = compute(st["fn"], spec, site if st.get("mark", True) else None, a, kw, opn)
            R.values[site] = v
            env[st["out"]] = _bind_unpack(v, st, spec)
        elif k == "op":
            if not active:
                env[st["out"]] = None
                continue
            try:
                a = _val(_ev_ref(st["a"], env))
                if st["op"] in UNARY:
                    env[st["out"]] = OPS[st["op"]](a)
                else:
                    env[st["out"]] = OPS[st["op"]](a, _val(_ev_ref(st["b"], env)))
            except (ArithmeticError, ValueError, TypeError) as e:
                raise RefError(repr(e)) from e
        elif k == "logic":
            if not active:
                env[st["out"]] = None
                continue
            vals = [_val(_ev_ref(a, env)) for a in st["args"]]
            if st["op"] == "and_":
                env[st["out"]] = vals[0] and vals[1]
            elif st["op"] == "or_":
                env[st["out"]] = vals[0] or vals[1]
            else:
                env[st["out"]] = not vals[0]
        elif k == "sub":
            flag = True if st.get("active") is None else bool(_val(_ev_ref(st["active"], env)))
            a = [_val(_ev_ref(x, env)) for x in st["args"]]
            env[st["out"]] = ref_run(st["prog"], a, R, active=active and flag, top=False)
        else:
            raise ValueError(k)
    out = _ret_eval(P["ret"], env, lambda e, en: _val(_ev_ref(e, en)))
    if not active:
        # (a parameter handed back as the single return value is ONE output, whatever container it holds)
        out = None if (P["ret"] is not None and P["ret"][0] == "x" and P["ret"][1][0] == "p") else _all_none(out)
    return out


def _all_none(v: Any) -> Any:
    if isinstance(v, tuple):
        return tuple(None for _ in v)
    if isinstance(v, list):
        return [None for _ in v]
    if isinstance(v, dict):
        return {k: None for k in v}
    return None


def _bind_unpack(v: Any, st: Dict[str, Any], spec: Dict[str, Any]) -> Any:
    n = st.get("unpack") or spec.get("unpack")
    if n is None:
        return v
    if v is NOTRUN:
        return tuple(NOTRUN for _ in range(n))
    return tuple(v[i] for i in range(n))


# ---------------------------------------------------------------------------- running
def run_dag(dag: Any, args: Any, ex: Optional[sched.Exec] = None) -> Any:
    """Call a DAG or await an AsyncDAG (in a fresh loop) under the given Exec."""
    import asyncio

    import tawazi

    def go() -> Any:
        if isinstance(dag, (tawazi.AsyncDAG, tawazi.AsyncDAGExecution)):
            return asyncio.run(dag(*args))
        return dag(*args)

    if ex is None:
        return go()
    with ex:
        return go()


def observations(ex: sched.Exec) -> List[Tuple[str, str, Tuple[Any, ...], Tuple[Any, ...]]]:
    out = []
    for e in ex.events:
        if e["k"] == "ENTER":
            out.append((e["fn"], e["site"], tuple(e["args"]), tuple(sorted(e["kwargs"].items(), key=lambda t: t[0]))))
    return out


def foreign_objects(v: Any, depth: int = 0) -> List[str]:
    """Descriptions of tawazi objects (e.g. UsageExecNode) found inside a value that should be plain data.
    Comparing such objects with == would invoke tawazi's operator overloading."""
    out: List[str] = []
    if depth > 6:
        return out
    mod = type(v).__module__ or ""
    if mod.startswith("tawazi"):
        return [f"{type(v).__name__}({getattr(v, 'id', '')})"]
    if isinstance(v, (tuple, list)):
        for x in v:
            out.extend(foreign_objects(x, depth + 1))
    elif isinstance(v, dict):
        for x in v.values():
            out.extend(foreign_objects(x, depth + 1))
    return out
