"""Hypothesis strategies for program IRs (see prog.py).  All randomness comes from `draw`."""
from typing import Any, Dict, List, Optional, Sequence

from hypothesis import strategies as st

from .prog import MARK, enc

RES = ("thread", "async-thread", "main-thread")


def chance(draw: Any, p: float) -> bool:
    """True with probability ~p.  Hypothesis biases floats / integers / sampled_from towards small values
    (measured: floats(0, 1) < 0.15 holds in 36% of the draws), so the number is assembled from six boolean draws;
    shrinking (towards False bits) turns the feature off."""
    n = 0
    for i in range(6):
        n |= int(draw(st.booleans())) << i
    return n >= 64 - int(round(p * 64))


def site(i: int) -> str:
    return f"{MARK}s{i}"


@st.composite
def flat_prog(
    draw: Any,
    min_sites: int = 2,
    max_sites: int = 9,
    max_deps: int = 3,
    resources: Sequence[str] = ("thread",),
    prio_range: Optional[Sequence[int]] = None,
    seq_rate: float = 0.0,
    dep_kinds: Sequence[str] = ("pos",),
    n_params: int = 0,
    random_names: bool = False,
    wide: bool = False,
    name: str = "P",
    reuse: bool = False,
    stamp_setup: bool = False,
    n_setup: int = 0,
    n_debug: int = 0,
    mark_roots: bool = True,
    dup_rate: float = 0.0,
    index_rate: float = 0.0,
    none_rate: float = 0.0,
    bad_index_rate: float = 0.0,
    split_rate: float = 0.0,
    same_qual_rate: float = 0.0,
    setup_dense: bool = False,
    short_name_rate: float = 0.0,
    ret_index_rate: float = 0.0,
    mutable_setup_rate: float = 0.0,
    many_args_rate: float = 0.0,
    same_name_rate: float = 0.1,
) -> Dict[str, Any]:
    """A call-only program: every statement is one call of a constructor function, depending on earlier
    sites through positional args / kwargs / activation flags.  Acyclic by construction."""
    n = draw(st.integers(min_sites, max_sites))
    if random_names:
        names = draw(
            st.lists(st.text("abcdefghijklmnopqrstuvwxyz", min_size=1, max_size=5), min_size=n, max_size=n, unique=True)
        )
    else:
        names = [f"f{i}" for i in range(n)]
        if short_name_rate and chance(draw, short_name_rate):
            # a function simply called "s": its id is a proper substring of every site tag ("s0", "s1", ...) - which
            # must not matter, ids and tags are matched as whole strings
            names[draw(st.integers(0, n - 1))] = "s"
    params = [[f"p{i}", None] for i in range(n_params)]
    fns: Dict[str, Any] = {}
    body: List[Any] = []
    setup_idx = set(range(min(n_setup, n)))  # setup sites come first (they may only depend on setup/consts)
    debug_idx = set(range(max(len(setup_idx), n - n_debug), n)) if n_debug else set()
    for i in range(n):
        fn = names[i]
        if reuse and i > 0 and i in setup_idx and (i - 1) in setup_idx and body[i - 1]["mark"] and chance(draw, 0.3):
            fn = body[i - 1]["fn"]  # ONE setup function used at two call sites (two nodes that may be in flight together)
        if reuse and i > 0 and i not in setup_idx and i not in debug_idx and draw(st.integers(0, 3)) == 0:
            cands = [j for j in range(i) if j not in setup_idx and not fns[body[j]["fn"]].get("debug") and body[j]["mark"]]
            if cands:
                fn = body[draw(st.sampled_from(cands))]["fn"]
        if fn not in fns:
            spec: Dict[str, Any] = {"kind": "term", "res": draw(st.sampled_from(list(resources)))}
            if prio_range is not None:
                spec["prio"] = draw(st.integers(prio_range[0], prio_range[1]))
            if draw(st.sampled_from([True, False, False, False])):
                spec["qual"] = f"mk.<locals>.{fn}"  # a function defined inside another function
            if same_qual_rate and i not in setup_idx and i not in debug_idx and chance(draw, same_qual_rate):
                # two different decorated functions with ONE qualified name (closures made by the same factory, the
                # same function decorated twice with different options): each keeps its own attributes
                prev = [g for g, sp in fns.items() if not sp.get("setup") and not sp.get("debug")]
                if prev:
                    g = draw(st.sampled_from(prev))
                    spec["qual"] = fns[g].get("qual", g)
                    if draw(st.booleans()):
                        spec["bound"] = fns[g]["bound"] = True  # ... as the same method of two instances
            if seq_rate and draw(st.floats(0, 1)) < seq_rate:
                spec["seq"] = True
            if i in setup_idx:
                spec["setup"] = True
                if stamp_setup:
                    spec["stamp"] = True
                if draw(st.sampled_from([True, False, False, False])):
                    # a setup function may legitimately return None / a falsy value (e.g. it only warms a cache)
                    spec["kind"], spec["val"] = "const", draw(st.sampled_from([None, None, 0, "", False]))
                elif mutable_setup_rate and chance(draw, mutable_setup_rate):
                    spec["kind"] = "mlist"  # a mutable object (a model, a registry ...): here a list
            if i in debug_idx:
                spec["debug"] = True
            if index_rate and i not in setup_idx and draw(st.floats(0, 1)) < index_rate:
                if draw(st.booleans()):
                    spec["kind"], spec["n"] = "tup", 2
                else:
                    spec["kind"] = "dict"  # {"a": term, "b": [term, (term, term)]}
            elif split_rate and "flag" in dep_kinds and i not in setup_idx and i not in debug_idx and fn == names[i] \
                    and chance(draw, split_rate):
                # a producer of a pair whose two elements are truthy / falsy independently: later sites are flagged
                # by ONE element each (twz_active=pair[0] / pair[1])
                pool_ = [0, 1, "", "x", None, True, False]
                spec["kind"], spec["pair"] = "const", True
                # (a third of the pairs is a FALSY container whose elements can still be read: see prog.Hollow)
                spec["val"] = {("H" if chance(draw, 0.33) else "T"): [draw(st.sampled_from(pool_)), draw(st.sampled_from(pool_))]}
            elif none_rate and i not in setup_idx and draw(st.floats(0, 1)) < none_rate:
                # a side-effect-only function: its result is None (or another falsy constant)
                spec["kind"], spec["val"] = "const", draw(st.sampled_from([None, None, 0, ""]))
            if chance(draw, 0.08):
                spec["partial"] = True  # the node function is a functools.partial object
            elif chance(draw, 0.06):
                spec["bound"] = True  # the node function is a bound method
            fns[fn] = spec
        # dependencies
        if i in setup_idx:
            pool = [j for j in range(i) if j in setup_idx]
        elif i in debug_idx:
            pool = list(range(i))
        else:
            pool = [j for j in range(i) if j not in debug_idx]
        k = 0 if not pool else draw(st.integers(0, min(max_deps, len(pool))))
        if wide and pool and k > 0:
            k = draw(st.integers(0, 1))
        if setup_dense and i in setup_idx and pool:
            k = min(len(pool), draw(st.integers(1, 2)))  # one root, diamonds among the setup sites
        deps: List[int] = []
        if k:
            deps = draw(st.lists(st.sampled_from(pool), min_size=k, max_size=k, unique=True))
        args, kwargs, active = [], {}, None
        for j in deps:
            how = draw(st.sampled_from(list(dep_kinds)))
            e = ["v", f"v{j}"]
            jk = fns[body[j]["fn"]].get("kind")
            if jk == "tup" and body[j]["active"] is None and draw(st.booleans()):
                e = ["i", e, draw(st.integers(0, 1))]
                if bad_index_rate and draw(st.floats(0, 1)) < bad_index_rate:
                    e = ["i", e[1], 7]  # the user's mistake: the pair has no element 7 (plain Python: IndexError)
            elif jk == "dict" and body[j]["active"] is None and draw(st.booleans()):
                e = draw(st.sampled_from([["i", e, "a"], ["i", ["i", e, "b"], 0], ["i", ["i", ["i", e, "b"], 1], 1]]))
                if bad_index_rate and draw(st.floats(0, 1)) < bad_index_rate:
                    e = ["i", ["v", f"v{j}"], "zz"]  # a key the mapping does not have (plain Python: KeyError)
            if how == "pos":
                args.append(e)
            elif how == "kw":
                kwargs[f"k{j}"] = e
            elif how == "flag":
                if active is None and i not in setup_idx:
                    active = e
                else:
                    args.append(e)
        pairs = [j for j in pool if fns[body[j]["fn"]].get("pair")] if split_rate else []
        sibl = [body[j]["active"] for j in deps if body[j].get("active") and body[j]["active"][0] == "i"
                and body[j]["active"][2] in (0, 1)] if split_rate else []
        if sibl and "flag" in dep_kinds and active is None and i not in setup_idx and i not in debug_idx and draw(st.booleans()):
            # a site that consumes a flagged site is itself flagged by the OTHER element of the same pair
            a0 = draw(st.sampled_from(sibl))
            active = ["i", a0[1], 1 - a0[2]]
        if pairs and "flag" in dep_kinds and active is None and i not in setup_idx and i not in debug_idx and draw(st.booleans()):
            active = ["i", ["v", f"v{draw(st.sampled_from(pairs))}"], draw(st.integers(0, 1))]
        if "flag" in dep_kinds and active is None and i not in setup_idx and i not in debug_idx \
                and draw(st.sampled_from([True] + [False] * 5)):
            active = ["c", draw(st.sampled_from([False, False, True, 0, 1, None]))]  # a constant activation flag
        if fns[fn].get("pair") and active is not None:
            # the pair is indexed by its users: it must not be deactivated (None[0] raises in plain Python as well)
            if active[0] != "c":
                args.append(active)
            active = None
        if n_params and i not in setup_idx and draw(st.integers(0, 2)) == 0:
            args.append(["p", f"p{draw(st.integers(0, n_params - 1))}"])
        if dup_rate and i > 0 and i not in setup_idx and i not in debug_idx and draw(st.floats(0, 1)) < dup_rate:
            cands = [j for j in range(i) if j not in setup_idx and j not in debug_idx and body[j]["active"] is None]
            if cands:
                j = draw(st.sampled_from(cands))
                body[j]["mark"] = False
                body.append({"k": "call", "fn": body[j]["fn"], "site": site(i), "mark": False,
                             "args": list(body[j]["args"]), "kwargs": dict(body[j]["kwargs"]), "active": None,
                             "unpack": None, "tags": [], "out": f"v{i}"})
                continue
        if many_args_rate and i not in setup_idx and fn == names[i] and chance(draw, many_args_rate):
            # scale: one call with 10-24 positional arguments - constants and the same few dependencies again and again
            # (argument holders named "10th argument", "21st argument" ...; several edges between the same two nodes)
            pool_args = [list(a_) for a_ in args] + [["c", draw(st.sampled_from([0, 1, "k", None]))] for _ in range(3)]
            args = list(args) + [draw(st.sampled_from(pool_args)) for _ in range(draw(st.integers(10, 24)) - len(args))]
        mark = True
        if not mark_roots and not args and not kwargs and active is None and fn == names[i]:
            mark = False  # a true root of the graph: no constant marker argument either
        body.append({"k": "call", "fn": fn, "site": site(i), "mark": mark, "args": args, "kwargs": kwargs,
                     "active": active, "unpack": None, "tags": [], "out": f"v{i}"})
    plain_fns = [g for g, sp in fns.items() if "qual" not in sp or sp["qual"] == f"mk.<locals>.{g}"]
    if len(plain_fns) >= 2 and same_name_rate and chance(draw, same_name_rate):
        # kind of callable: two closures / methods that share their __name__ ("step") while their __qualname__ - which
        # is what tawazi names the node after - differs
        for g in plain_fns[:2]:
            fns[g]["pyname"] = "step"
            fns[g]["qual"] = f"mk_{g}.<locals>.step"
    ret_items: List[Any] = []
    for i in range(n):
        e: Any = ["v", f"v{i}"]
        kind_i = fns[body[i]["fn"]].get("kind")
        if ret_index_rate and body[i].get("active") is None and kind_i in ("tup", "dict") and chance(draw, ret_index_rate):
            # the describing function returns a PART of this result (x[0], x["a"]): one entry per site all the same
            e = ["i", e, 0] if kind_i == "tup" else ["i", e, "a"]
        ret_items.append(e)
    ret = ["T", ret_items]
    return {"name": name, "params": params, "fns": fns, "body": body, "ret": ret}


def deps_of(P: Dict[str, Any]) -> Dict[str, List[str]]:
    """site -> list of sites it depends on (call-only programs, direct var references, any index depth)."""

    def roots(e: Any) -> List[str]:
        if e is None:
            return []
        if e[0] == "v":
            return [e[1]]
        if e[0] == "i":
            return roots(e[1])
        return []

    out2site = {st_["out"]: st_["site"] for st_ in P["body"] if st_["k"] == "call"}
    d: Dict[str, List[str]] = {}
    for st_ in P["body"]:
        if st_["k"] != "call":
            continue
        ds: List[str] = []
        for e in list(st_["args"]) + list(st_["kwargs"].values()) + [st_.get("active")]:
            for r in roots(e):
                if r in out2site and out2site[r] not in ds:
                    ds.append(out2site[r])
        d[st_["site"]] = ds
    return d


def descendants(deps: Dict[str, List[str]]) -> Dict[str, set]:
    """site -> all sites that depend on it, directly or not (iterative: programs may be thousands of sites deep)."""
    children: Dict[str, set] = {s: set() for s in deps}
    for s, ds in deps.items():
        for d in ds:
            children[d].add(s)
    out: Dict[str, set] = {}
    for s in reversed(list(deps)):  # program order is topological: every child comes later
        acc: set = set()
        for c in children[s]:
            acc.add(c)
            acc |= out[c]
        out[s] = acc
    return {s: out[s] for s in deps}


def ancestors(deps: Dict[str, List[str]]) -> Dict[str, set]:
    out: Dict[str, set] = {}
    for s in deps:  # program order is topological: every dependency comes earlier
        acc: set = set()
        for d in deps[s]:
            acc.add(d)
            acc |= out[d]
        out[s] = acc
    return out


def compound_priority(P: Dict[str, Any], prios: Optional[Dict[str, int]] = None) -> Dict[str, int]:
    """The documented definition: own priority + priorities of all distinct descendants."""
    deps = deps_of(P)
    desc = descendants(deps)
    own = {st_["site"]: P["fns"][st_["fn"]].get("prio", 0) for st_ in P["body"] if st_["k"] == "call"}
    if prios:
        own.update(prios)
    return {s: own[s] + sum(own[d] for d in desc[s]) for s in deps}


def n_paths_max(deps: Dict[str, List[str]]) -> int:
    """max over (ancestor, node) pairs of the number of distinct paths: >1 means the shape is not a forest."""
    order = list(deps)
    best = 1
    for src in order:
        cnt = {s: 0 for s in order}
        cnt[src] = 1
        for s in order:  # sites are listed in topological order
            for d in deps[s]:
                cnt[s] += cnt[d] if d != s else 0
        best = max(best, max(cnt.values()))
    return best


def true_roots(P: Dict[str, Any]) -> List[str]:
    """Sites that are roots of tawazi's graph: no dependency at all, not even a constant argument."""
    return [s["site"] for s in P["body"] if s["k"] == "call" and not s.get("mark", True) and not s["args"]
            and not s["kwargs"] and s.get("active") is None]
