"""Trace oracles for sched cases.  Every oracle is a validity predicate over the event trace (many schedules
are correct); each returns a list of (rule, message, known_finding_key|None)."""
from collections import Counter
from typing import Any, Dict, List, Optional, Set, Tuple

from . import prog, sched
from .schedcase import Model, Outcome

Finding = Tuple[str, str, Optional[str]]


class Trace:
    def __init__(self, M: Model, out: Outcome) -> None:
        self.M = M
        self.out = out
        ex = out.ex
        assert ex is not None
        self.ev = ex.events
        self.enter: Dict[str, List[Dict[str, Any]]] = {}
        self.exit: Dict[str, List[Dict[str, Any]]] = {}
        tok2site: Dict[int, str] = {}
        for e in self.ev:
            if e["k"] == "ENTER":
                s = M.site_of_key.get(e["site"], e["site"])
                self.enter.setdefault(s, []).append(e)
                if e["tok"] is not None:
                    tok2site[e["tok"]] = s
            elif e["k"] == "EXIT":
                s = M.site_of_key.get(e["site"], e["site"])
                self.exit.setdefault(s, []).append(e)
        self.tok2site = tok2site
        # dispatch events in scheduler order
        submits = [e for e in self.ev if e["k"] == "SUBMIT"]
        asub = [e for e in submits if e["kind"] == "async"]
        aspawn = [e for e in self.ev if e["k"] == "ASPAWN"]
        disp: List[Tuple[int, Optional[str], str]] = []
        for e in submits:
            if e["kind"] == "thread":
                disp.append((e["seq"], tok2site.get(e["tok"]), "thread"))
        if len(aspawn) == len(asub):
            for a, s in zip(aspawn, asub):
                disp.append((a["seq"], tok2site.get(s["tok"]), "async"))
            self.async_exact = True
        else:
            for s in asub:
                disp.append((s["seq"], tok2site.get(s["tok"]), "async"))
            self.async_exact = False
        for s, es in self.enter.items():
            for e in es:
                if e["tok"] is None:
                    disp.append((e["seq"], s, "inline"))
        disp.sort(key=lambda t: t[0])
        self.dispatches = disp

    def exit_before(self, site: str, seq: int, ok_only: bool = True) -> bool:
        return any(x["seq"] < seq and (x["ok"] or not ok_only) for x in self.exit.get(site, []))


def _expected_obs(M: Model, case: Dict[str, Any], pre: Optional[Dict[str, Any]] = None) -> Dict[str, Any]:
    """site -> (args, kwargs) the reference says the site receives (no failures injected)."""
    R = prog.Ref(selected=M.selected, run_debug=bool(case.get("debug")), pre=pre)
    try:
        prog.ref_run(M.P, [prog.dec(a) for a in case.get("args", [])], R)
    except (prog.MissingArg, prog.RefError, KeyError, IndexError):
        pass
    return {M.site_of_key.get(k, k): (a, kw) for (_f, k, a, kw) in R.obs}


def bad_index_sites(P: Dict[str, Any]) -> Set[str]:
    """Sites one of whose arguments / flag indexes a pair with element 7 (generated on purpose)."""
    out: Set[str] = set()
    for s in P["body"]:
        if s["k"] != "call":
            continue
        for e in list(s["args"]) + list(s["kwargs"].values()) + [s.get("active")]:
            while e is not None and e[0] == "i":
                if e[2] == 7 or e[2] == "zz":
                    out.add(s["site"])
                e = e[1]
    return out


# ------------------------------------------------------------------------------------ C02
def dep_order(T: Trace, case: Dict[str, Any]) -> List[Finding]:
    M, out = T.M, T.out
    bad: List[Finding] = []
    took_part = set(T.enter)
    exp = _expected_obs(M, case, out.ref.pre if out.ref is not None else None)
    bad_idx = bad_index_sites(M.P)
    for n, es in T.enter.items():
        if n not in M.deps:
            continue
        if n in bad_idx and all(d in took_part for d in M.deps[n]):
            bad.append(("entered-despite-bad-index", f"{n} was entered although one of its arguments indexes a result with a key that result does not have (plain Python raises); it received {es[0]['args']} {es[0]['kwargs']}", None))
        for e in es:
            for d in M.deps[n]:
                if d in took_part and not T.exit_before(d, e["seq"], ok_only=False):
                    bad.append(("dep-order", f"{n} entered (seq {e['seq']}) before its dependency {d} returned", None))
                elif d not in took_part and d in exp and (M.selected is None or d in M.selected):
                    bad.append(("dep-never-ran", f"{n} entered although its dependency {d} (which takes part) never ran", None))
            if n in exp:
                got = (tuple(e["args"]), tuple(sorted(e["kwargs"].items(), key=lambda t: t[0])))
                if got != exp[n]:
                    bad.append(("dep-values", f"{n} received {got}, the reference says {exp[n]}", None))
    return bad


# ------------------------------------------------------------------------------------ C03
def exactly_once(T: Trace, case: Dict[str, Any]) -> List[Finding]:
    M, out = T.M, T.out
    if out.exc is not None and case.get("spawn_fail") is not None and out.ref_exc is None:
        # the call failed on the injected resource fault: nothing is owed, but no call site may have been entered twice
        if out.ref is None:
            return []
        want_ = Counter(M.site_of_key.get(k, k) for (_f, k, _a, _kw) in out.ref.obs)
        twice = {s: len(es) for s, es in T.enter.items() if len(es) > want_.get(s, 0)}
        if twice:
            return [("ran-twice-or-unselected", f"entered more than once in an execution that failed on a pool fault: {twice}", None)]
        return []
    if out.exc is not None or out.ref_exc is not None or out.ref is None:
        return []
    got = Counter()
    for s, es in T.enter.items():
        got[s] += len(es)
    want = Counter(M.site_of_key.get(k, k) for (_f, k, _a, _kw) in out.ref.obs)
    if got != want:
        extra = {k: v for k, v in (got - want).items()}
        missing = {k: v for k, v in (want - got).items()}
        rule = "ran-twice-or-unselected" if extra else "selected-node-did-not-run"
        return [(rule, f"entered too often / not selected: {extra}; not entered: {missing}", None)]
    return []


# ------------------------------------------------------------------------------------ C04
def bound_placement(T: Trace, case: Dict[str, Any]) -> List[Finding]:
    M, out = T.M, T.out
    bad: List[Finding] = []
    for e in T.ev:
        if e["k"] == "SUBMIT" and e["inflight"] > M.mc:
            bad.append(("bound-submit", f"{e['inflight']} pooled nodes submitted and unfinished > max_concurrency={M.mc}", None))
            break
    for e in T.ev:
        if e["k"] == "STARVED":
            bad.append(("dispatched-node-cannot-start", f"nodes were dispatched to a pool that has no free worker for them although at most max_concurrency={M.mc} are in flight: {e['starved']}", None))
            break
    inside: Set[str] = set()
    for e in T.ev:
        if e["k"] == "ENTER":
            s = M.site_of_key.get(e["site"], e["site"])
            if s in M.res and M.pooled(s):
                inside.add(s)
                if len(inside) > M.mc:
                    bad.append(("bound-running", f"{sorted(inside)} run simultaneously > max_concurrency={M.mc}", None))
                    break
        elif e["k"] == "EXIT":
            inside.discard(M.site_of_key.get(e["site"], e["site"]))
    for s, es in T.enter.items():
        if s not in M.res:
            continue
        for e in es:
            on_invoker = e["th"] == out.invoker
            if M.pooled(s) and (on_invoker or e["tok"] is None):
                bad.append(("placement-pooled-on-invoker", f"{s} ({M.res[s]}) ran on the invoking thread", None))
            if not M.pooled(s) and (not on_invoker or e["tok"] is not None):
                bad.append(("placement-main-in-pool", f"{s} (main-thread) ran on a worker thread", None))
    return bad


# ------------------------------------------------------------------------------------ C05
def seq_isolation(T: Trace, case: Dict[str, Any]) -> List[Finding]:
    M = T.M
    bad: List[Finding] = []
    inside: Dict[str, int] = {}
    for e in T.ev:
        if e["k"] == "ENTER":
            s = M.site_of_key.get(e["site"], e["site"])
            others = [o for o in inside if o != s]
            if M.seq.get(s) and others:
                bad.append(("seq-entered-while-running", f"sequential {s} entered while {others} still run", None))
            running_seq = [o for o in others if M.seq.get(o)]
            if running_seq:
                bad.append(("entered-during-seq", f"{s} entered while sequential {running_seq} is running", None))
            inside[s] = e["seq"]
        elif e["k"] == "EXIT":
            inside.pop(M.site_of_key.get(e["site"], e["site"]), None)
    return bad


# ------------------------------------------------------------------------------------ scheduler knowledge model
class Know:
    """What the scheduler can know at each point: which nodes it dispatched and which it observed done."""

    def __init__(self, T: Trace) -> None:
        self.T = T
        M, out = T.M, T.out
        R = out.ref
        assert R is not None
        self.part = set(M.site_of_key.get(k, k) for k in R.executed)  # nodes that take part and are active
        # debug nodes pulled into a sub-graph run by the debug rule take part as well
        self.part |= {s for s in T.enter if s in M.spec and M.spec[s].get("debug")}
        self.skipped = set(R.skipped)
        self.failed: Set[str] = set()

    def walk(self) -> Any:
        """Yields ("dispatch", seq, site, how, dispatched, known_done) and ("wait", event, dispatched, known_done)."""
        T, M = self.T, self.T.M
        disp_at = {seq: (s, how) for seq, s, how in T.dispatches}
        dispatched: List[str] = []
        known_done: Set[str] = set()
        for e in T.ev:
            seq = e["seq"]
            if seq in disp_at:
                s, how = disp_at[seq]
                yield ("dispatch", seq, s, how, list(dispatched), set(known_done))
                if s is not None:
                    dispatched.append(s)
            if e["k"] == "WAIT":
                yield ("wait", e, list(dispatched), set(known_done))
            elif e["k"] == "WAITSTEP":
                # the scheduler is still blocked in an ALL_COMPLETED wait although these nodes are done: what it
                # would know had it woken up
                yield ("wait", dict(e, blocking=True, step=True), list(dispatched), set(known_done) | set(e["done"]))
            elif e["k"] == "WAITRET":
                for s in e["observed"]:
                    known_done.add(s)
            elif e["k"] == "EXIT" and e["ok"]:
                s = M.site_of_key.get(e["site"], e["site"])
                if s in M.res and not M.pooled(s):
                    known_done.add(s)

    def ready(self, dispatched: List[str], known_done: Set[str]) -> Tuple[Set[str], Any]:
        """(nodes certainly ready and not dispatched, the nodes that may or may not be ready too)."""
        M = self.T.M
        certain: Set[str] = set()
        unsure: Set[str] = set()
        for m in self.skipped:
            # a deactivated node stays a candidate until the scheduler picks it (which leaves no trace)
            if m in M.deps and all(d in known_done or d in self.skipped or d not in self.part for d in M.deps[m]):
                unsure.add(m)
        for m in self.part:
            if m in dispatched:
                continue
            ds = [d for d in M.deps[m] if d in self.part or d in self.skipped]
            if any(d in self.skipped for d in ds):
                # the moment a deactivated dependency was skipped leaves no trace
                if all(d in known_done for d in ds if d in self.part):
                    unsure.add(m)
                continue
            if all(d in known_done for d in ds):
                certain.add(m)
        return certain, unsure


# ------------------------------------------------------------------------------------ C06
def priority(T: Trace, case: Dict[str, Any], stats: Optional[Dict[str, int]] = None) -> List[Finding]:
    M, out = T.M, T.out
    if out.ex is None or out.ex.mode != "ctl" or out.ex.uncontrolled or out.ex.stalled:
        return []
    K = Know(T)
    bad: List[Finding] = []
    exit_seq = {M.site_of_key.get(e["site"], e["site"]): e["seq"] for e in T.ev if e["k"] == "EXIT" and e["ok"]}
    for item in K.walk():
        if item[0] != "dispatch":
            continue
        _, seq, n, how, dispatched, known = item
        if n is None or n not in M.cp:
            continue
        # under the controller a pooled node only finishes inside one of the scheduler's own wait calls, and every
        # wait sequence of the scheduler ends by collecting what has finished: at a dispatch, "finished" (the
        # property's wording) and "collected" coincide.  A node that finished before this dispatch but was not
        # collected hides a ready successor from the choice.
        finished = {s for s, q in exit_seq.items() if q < seq}
        ready_lit, _u = K.ready(dispatched, known | finished)
        hidden = [m for m in ready_lit if m != n and M.cp[m] > M.cp[n]]
        ready, _unsure = K.ready(dispatched, known)
        if hidden and not [m for m in ready if m != n and M.cp[m] > M.cp[n]]:
            late = sorted(s for s in finished - known if s in M.res and M.pooled(s))
            bad.append((
                "priority-uncollected",
                f"{n} (compound priority {M.cp[n]}) was started while {sorted(hidden)} (compound priority "
                f"{[M.cp[m] for m in sorted(hidden)]}) had all their dependencies finished: {late} had finished in an "
                f"earlier wait of the scheduler but had not been collected; dispatched so far {dispatched}",
                None,
            ))
            break
        others = [m for m in ready if m != n]
        if stats is not None and others:
            stats["decisions"] = stats.get("decisions", 0) + 1
            if any(M.cp[m] != M.cp[n] for m in others):
                stats["decisions_diff_cp"] = stats.get("decisions_diff_cp", 0) + 1
        better = [m for m in others if M.cp[m] > M.cp[n]]
        if better:
            bad.append((
                "priority",
                f"{n} (compound priority {M.cp[n]}) was started while {sorted(better)} "
                f"(compound priority {[M.cp[m] for m in sorted(better)]}) were ready; dispatched so far {dispatched}",
                None,
            ))
            break
    return bad


# ------------------------------------------------------------------------------------ C08
def no_idle(T: Trace, case: Dict[str, Any], stats: Optional[Dict[str, int]] = None) -> List[Finding]:
    M, out = T.M, T.out
    for e in T.ev:
        if e["k"] == "STARVED":
            return [("dispatched-node-cannot-start", f"a dispatched node sits in a queue behind busy workers instead of running in one of the max_concurrency={M.mc} slots: {e['starved']}", None)]
    if out.ex is None or out.ex.mode != "ctl" or out.ex.uncontrolled or out.ex.stalled:
        return []
    K = Know(T)
    bad: List[Finding] = []
    for e in T.ev:
        if e["k"] == "STARVED":
            return [("dispatched-node-cannot-start", f"a dispatched node sits in a queue behind busy workers instead of running in one of the max_concurrency={M.mc} slots: {e['starved']}", None)]
    prev_hook_async_since_dispatch = False
    for item in K.walk():
        if item[0] == "dispatch":
            prev_hook_async_since_dispatch = False
            continue
        _, e, dispatched, known = item
        was_async_before = prev_hook_async_since_dispatch
        if e["kind"] == "async":
            prev_hook_async_since_dispatch = True
        if not e.get("blocking"):
            continue
        inflight = [s for s in dispatched if s in M.res and M.pooled(s) and s not in known]
        ready, unsure = K.ready(dispatched, known)
        if stats is not None:
            stats["blocking_waits"] = stats.get("blocking_waits", 0) + 1
        if len(inflight) >= M.mc:
            if stats is not None:
                stats["waits_full"] = stats.get("waits_full", 0) + 1
            continue
        if not ready:
            if stats is not None:
                stats["waits_nothing_ready"] = stats.get("waits_nothing_ready", 0) + 1
            continue
        if any(M.seq.get(s) for s in inflight):
            if stats is not None:
                stats["waits_seq_running"] = stats.get("waits_seq_running", 0) + 1
            continue
        best = max(M.cp[m] for m in ready)
        if any(M.seq.get(m) for m in ready if M.cp[m] == best):
            if stats is not None:
                stats["waits_seq_candidate"] = stats.get("waits_seq_candidate", 0) + 1
            continue
        if any(M.seq.get(u) and M.cp[u] >= best for u in unsure):
            # a deactivated node, or a node downstream of one, may still be a candidate; it is sequential and its
            # priority is not below the best certain candidate's: it could be what the scheduler is draining for
            if stats is not None:
                stats["waits_unjudged"] = stats.get("waits_unjudged", 0) + 1
            continue
        key = "K1-thread-wait-after-async-wait" if (e["kind"] == "thread" and was_async_before) else None
        bad.append((
            "idle-with-free-slot" if key is None else "idle-K1",
            f"scheduler blocks on {e['kind']} futures with {len(inflight)} < max_concurrency={M.mc} nodes in flight "
            f"{inflight} while {sorted(ready)} are ready (wait seq {e['seq']})",
            key,
        ))
        if key is None:
            break
    return bad


# ------------------------------------------------------------------------------------ C09
def termination(T: Trace, case: Dict[str, Any]) -> Tuple[List[Finding], Optional[str]]:
    M, out = T.M, T.out
    ex = out.ex
    assert ex is not None
    bad: List[Finding] = []
    inconclusive = None
    if isinstance(out.exc, sched.HangDetected) and not ex.stalled:
        bad.append(("hang-wait-on-empty-set", f"the scheduler blocks forever: {out.exc}", None))
    if ex.stalled:
        st = ex.stalled
        in_tawazi = any("/tawazi/" in f for f in st["frames"])
        # nodes blocked on a gate of the controller have entered but cannot finish on their own
        free_running = [s for s in st["running"] if s not in set(st["gated"])]
        if in_tawazi and not st["in_hook"] and not st["running"] and not st["pending"]:
            bad.append(("hang-nothing-in-flight", f"no progress for {st['idle_s']}s with nothing in flight; scheduler at {st['frames'][-3:]}", None))
        elif in_tawazi and not st["in_hook"] and not free_running and st["gated"] and ex.mode == "ctl" and st.get("killed"):
            # witness: the scheduler thread is inside tawazi and outside every wait primitive, the only nodes in flight
            # are waiting for a wait call to hand them back, and it still had not returned 3 s after every gate was
            # opened (so it is not merely blocked on something the controller withholds): it spins without waiting
            bad.append(("hang-never-waits", f"no progress for {st['idle_s']}s: nodes {st['gated']} are in flight but the scheduler never waits for them (it did not return after all of them were allowed to finish); scheduler at {st['frames'][-3:]}", None))
        else:
            inconclusive = "stall-without-witness"
    for e in T.ev:
        if e["k"] == "BLOCKED":
            bad.append(("dispatched-node-blocked-in-tawazi", f"nodes handed to a worker cannot enter their function while other nodes of the execution are running - they wait inside tawazi: {e['blocked']} (if the running nodes in turn wait for them the call never ends)", None))
            break
    nblock = sum(1 for e in T.ev if e["k"] == "WAIT" and e.get("blocking"))
    npooled = sum(1 for s in T.enter if s in M.res and M.pooled(s))
    if ex.mode == "ctl" and nblock > 2 * npooled + 2:
        bad.append(("too-many-waits", f"{nblock} blocking waits for {npooled} pooled nodes", None))
    if out.exc is None and out.ref_exc is None and not bad:
        bad.extend(f for f in exactly_once(T, case) if f[0] == "selected-node-did-not-run")
    return bad, inconclusive


# ------------------------------------------------------------------------------------ C14
def failure(T: Trace, case: Dict[str, Any], noframe: bool = False) -> List[Finding]:
    from tawazi.errors import TawaziBaseException

    M, out = T.M, T.out
    bad: List[Finding] = []
    failing = [s for s in case.get("failing", [])]
    failed_run = [s for s in failing if any(not x["ok"] for x in T.exit.get(s, []))]
    if not failing:
        if out.exc is not None and out.ref_exc is None and not isinstance(out.exc, sched.HarnessSignal):
            bad.append(("internal-error", f"no node failed but the call raised {type(out.exc).__name__}: {out.exc}", None))
        return bad
    if not failed_run:
        # the failing node never ran (deactivated / unselected / behind another failure): nothing to judge
        if out.exc is not None and out.ref_exc is None and not isinstance(out.exc, sched.HarnessSignal):
            bad.append(("internal-error", f"no node failed but the call raised {type(out.exc).__name__}: {out.exc}", None))
        return bad
    if isinstance(out.exc, sched.HarnessSignal):
        return bad
    if out.exc is None:
        bad.append(("failure-swallowed", f"{failed_run} raised but the call returned {out.value!r}", None))
        return bad
    exc = out.exc
    inj = exc if isinstance(exc, sched.InjectedError) else exc.__cause__
    if not isinstance(inj, sched.InjectedError):
        bad.append(("failure-wrong-exception", f"the call raised {type(exc).__name__}: {exc} with cause {exc.__cause__!r}", None))
    else:
        if inj.site not in [M.key[s] for s in failed_run]:
            bad.append(("failure-wrong-node", f"exception names {inj.site}, failed nodes are {failed_run}", None))
        if exc is inj and not noframe:
            bad.append(("failure-not-wrapped", "the original exception was raised without node id / call location", None))
        if exc is not inj:
            nid = out.built.node_id(M.site_of_key.get(inj.site, inj.site))
            msg = str(exc)
            if not isinstance(exc, TawaziBaseException):
                bad.append(("failure-wrong-type", f"wrapper is {type(exc).__name__}", None))
            if nid not in msg:
                bad.append(("failure-no-id", f"message {msg!r} does not name node {nid}", None))
            if "prog.py:" not in msg:
                bad.append(("failure-no-location", f"message {msg!r} has no call location", None))
    # nothing downstream of a failed node ever starts
    for f in failed_run:
        for d in M.desc[f]:
            if d in T.enter:
                bad.append(("failure-descendant-ran", f"{d} depends on failed {f} but was started", None))
    # nothing starts after the scheduler has observed the failure
    fkeys = set(failed_run)
    seen_at = None
    for e in T.ev:
        if e["k"] == "WAITRET" and any(M.site_of_key.get(s, s) in fkeys for s in e.get("failed_seen", [])):
            seen_at = e["seq"]
            break
        if e["k"] == "EXIT" and not e["ok"]:
            s = M.site_of_key.get(e["site"], e["site"])
            if s in fkeys and s in M.res and not M.pooled(s):
                seen_at = e["seq"]
                break
    if seen_at is not None:
        late = [(seq, s, how) for seq, s, how in T.dispatches if seq > seen_at and how != "async"]
        late += [e["seq"] for e in T.ev if e["k"] == "ASPAWN" and e["seq"] > seen_at]
        if late:
            bad.append(("failure-dispatch-after", f"nodes dispatched after the failure was observed at seq {seen_at}: {late}", None))
        # an async-thread node is handed to the pool by its task, possibly long after the scheduler created the task
        started_late = [(e["seq"], T.tok2site.get(e["tok"], e.get("nid"))) for e in T.ev
                        if e["k"] == "SUBMIT" and e["kind"] == "async" and e["seq"] > seen_at]
        if started_late and not late:
            bad.append(("failure-started-after", f"async-thread nodes {started_late} were started (handed to the pool, function entered) after the failure was observed at seq {seen_at} - the call had failed already", None))
    return bad
