"""Evaluates C07 cases in this process (whatever its PYTHONHASHSEED is).  Used in-process by the check
and as a persistent child (`python -m vlib.c07_worker`) speaking JSON lines."""
import json
import sys
from typing import Any, Dict, List, Optional

from . import env  # noqa: F401
from . import prog, sched


def _table(graph: Any, ids: Dict[str, str], only: Optional[List[str]] = None) -> Dict[str, Any]:
    t = {}
    for s, nid in ids.items():
        if only is not None and s not in only:
            continue
        try:
            t[s] = graph.compound_priority[nid]
        except Exception as e:  # a table that does not know the node
            t[s] = f"missing:{type(e).__name__}"
    return t


def _order(callable_: Any, keymap: Dict[str, str]) -> List[str]:
    import asyncio

    ex = sched.Exec("free")
    with ex:
        r = callable_()
        if asyncio.iscoroutine(r):
            asyncio.run(r)
    inv = {k: s for s, k in keymap.items()}
    return [inv.get(e["site"], e["site"]) for e in ex.events if e["k"] == "ENTER"]


def _apply_conf(dag_: Any, conf: Dict[str, Any], via: str) -> None:
    if via == "dict":
        dag_.config_from_dict(conf)
        return
    import os
    import tempfile

    path = os.path.join(tempfile.gettempdir(), f"vlib_c07_{os.getpid()}.{via}")
    with open(path, "w") as f:
        if via == "json":
            json.dump(conf, f)
        else:
            import yaml

            yaml.safe_dump(conf, f, sort_keys=False)
    try:
        (dag_.config_from_json if via == "json" else dag_.config_from_yaml)(path)
    finally:
        os.remove(path)


def evaluate(case: Dict[str, Any]) -> Dict[str, Any]:
    """Everything C07 observes about one case, as plain data."""
    import tawazi

    old_dbg = tawazi.cfg.RUN_DEBUG_NODES
    tawazi.cfg.RUN_DEBUG_NODES = bool(case.get("debug"))
    try:
        return _evaluate(case)
    finally:
        tawazi.cfg.RUN_DEBUG_NODES = old_dbg


def _evaluate(case: Dict[str, Any]) -> Dict[str, Any]:
    P = case["prog"]
    out: Dict[str, Any] = {}
    b = prog.build(P, mc=1, is_async=bool(case.get("async")))
    ids = b.node_ids()
    keymap = prog.key_of(P)
    out["t0"] = _table(b.dag.graph_ids, ids)
    if case.get("order", True):
        out["order0"] = _order(lambda: b.dag(), keymap)
    if case.get("sel_early") and case.get("sel") is not None:
        # an executor for the same selection created (and dropped) BEFORE the reconfiguration
        try:
            b.dag.executor(**{name: [ids[s] for s in case["sel"][k]] for k, name in
                              (("T", "target_nodes"), ("X", "exclude_nodes"), ("R", "root_nodes")) if case["sel"].get(k) is not None})
        except ValueError:
            pass
    if case.get("reconf") is not None:
        conf: Dict[str, Any] = {"nodes": {s.lstrip(prog.MARK): {"priority": p} for s, p in case["reconf"].items()}}
        bad = case.get("reconf_bad")
        if bad is not None:
            # one entry of the configuration is unusable (a priority that is not an int): the call is expected to raise.
            # Whatever it did before raising, the table must afterwards follow the priorities the API shows
            items = list(conf["nodes"].items())
            items.insert(min(bad["pos"], len(items)), (bad["site"].lstrip(prog.MARK), {"priority": bad["value"]}))
            conf["nodes"] = dict(items)
        if "reconf_bad_mc" in case:
            conf["max_concurrency"] = case["reconf_bad_mc"]
        via = case.get("reconf_via", "dict")
        if bad is not None or "reconf_bad_mc" in case:
            try:
                _apply_conf(b.dag, conf, via)
            except Exception as e:  # noqa: BLE001 - refusing is fine; what is left behind is judged
                out["reconf_raised"] = type(e).__name__
            out["prio_shown"] = {s: b.dag.get_node_by_id(nid).priority for s, nid in ids.items()}
            b.dag.max_concurrency = 1
        elif via == "dict":
            b.dag.config_from_dict(conf)
        else:
            # the configuration file of this process: one path, rewritten for every case (as a user edits a file)
            import os
            import tempfile

            path = os.path.join(tempfile.gettempdir(), f"vlib_c07_{os.getpid()}.{via}")
            with open(path, "w") as f:
                if via == "json":
                    json.dump(conf, f)
                else:
                    import yaml

                    yaml.safe_dump(conf, f)
            try:
                (b.dag.config_from_json if via == "json" else b.dag.config_from_yaml)(path)
            finally:
                os.remove(path)
        out["t1"] = _table(b.dag.graph_ids, ids)
        if case.get("order", True):
            out["order1"] = _order(lambda: b.dag(), keymap)
    sel = case.get("sel")
    if sel is not None:
        kw = {}
        for k, name in (("T", "target_nodes"), ("X", "exclude_nodes"), ("R", "root_nodes")):
            if sel.get(k) is not None:
                kw[name] = [ids[s] for s in sel[k]]
        try:
            exr = b.dag.executor(**kw)
        except ValueError as e:
            out["sel_error"] = str(e)[:200]
        else:
            nodes = set(exr.graph.nodes)
            insel = [s for s, nid in ids.items() if nid in nodes]
            out["tx"] = _table(exr.graph, ids, insel)
            out["insel"] = sorted(insel)
            if case.get("order", True):
                out["orderx"] = _order(lambda: exr(), keymap)
    if case.get("compose"):
        # a DAG derived with compose() is a DAG like any other: its table follows the same definition on its own graph
        import networkx as nx

        cm = case["compose"]
        try:
            cd = b.dag.compose("composed", [ids[s] for s in cm["inputs"]], [ids[s] for s in cm["outputs"]])
        except ValueError as e:
            out["compose_error"] = str(e)[:120]
        else:
            g = cd.graph_ids
            out["tc"] = {n: g.compound_priority[n] for n in sorted(g.nodes)}
            out["tc_def"] = {n: cd.exec_nodes[n].priority + sum(cd.exec_nodes[d].priority for d in nx.descendants(g, n))
                             for n in sorted(g.nodes)}
    if case.get("final_ops"):
        # operations that derive graphs from the DAG (setup runs, executors) must leave the DAG's own table alone
        import asyncio

        for op in case["final_ops"]:
            tn = None if op.get("T") is None else [ids[s] for s in op["T"]]
            try:
                r = b.dag.setup(target_nodes=tn) if op["op"] == "setup" else b.dag.executor(target_nodes=tn).setup()
                if asyncio.iscoroutine(r):
                    asyncio.run(r)
            except ValueError:
                pass
        out["t_end"] = _table(b.dag.graph_ids, ids)
    return out


def main() -> None:
    for line in sys.stdin:
        line = line.strip()
        if not line:
            continue
        if line == "quit":
            break
        try:
            rep = evaluate(json.loads(line))
        except BaseException as e:  # reported to the parent, which decides
            rep = {"error": f"{type(e).__name__}: {e}"[:500]}
        sys.stdout.write(json.dumps(rep) + "\n")
        sys.stdout.flush()


if __name__ == "__main__":
    main()
