"""Coverage-guided shard (thorough tier of the program-space checks): atheris / libFuzzer drives the SAME
Hypothesis strategy through `fuzz_one_input`, with tawazi's modules instrumented for coverage, and the same
oracle (`run_case`) inside the target.  Violations are recorded, never raised (libFuzzer would stop at the
first crash).  libFuzzer ends the process without running atexit handlers, so the report is rewritten
periodically."""
import json
import os
import sys
import tempfile
import time
import traceback

HERE = os.path.dirname(os.path.dirname(os.path.abspath(__file__)))
sys.path.insert(0, os.path.join(HERE, ".deps"))


def main(argv):  # type: ignore[no-untyped-def]
    import argparse

    ap = argparse.ArgumentParser()
    ap.add_argument("pid")
    ap.add_argument("--seed", type=int, default=1)
    ap.add_argument("--shard", type=int, default=0)
    ap.add_argument("--nshards", type=int, default=1)
    ap.add_argument("--seconds", type=float, default=60)
    ap.add_argument("--out", required=True)
    ap.add_argument("--corpus", default=None)
    a = ap.parse_args(argv)
    try:
        import atheris
    except Exception as e:  # not installed: an empty report, the Hypothesis shards still decide the property
        json.dump({"pid": a.pid, "shard": a.shard, "seed": a.seed, "cases": 0, "evaluations": 0, "nontrivial": [],
                   "classes": {}, "samples": [], "inconclusive": {}, "skipped": {}, "known_hits": {}, "failures": {},
                   "dups": {}, "harness_errors": [], "phase_info": {"atheris": f"unavailable: {e}"}, "wall_s": 0}, open(a.out, "w"))
        return 0
    with atheris.instrument_imports(include=["tawazi"]):
        from vlib import env  # noqa: F401  tawazi is imported here, instrumented
    import hypothesis
    from hypothesis import HealthCheck, given, settings

    from vlib import harness

    H = harness.Harness(a.pid, "thorough", a.seed, a.shard, a.nshards, a.seconds + 3600)
    H.phase_info["atheris_execs"] = 0
    H.phase_info["atheris_shards"] = 1

    @settings(database=None, deadline=None, suppress_health_check=list(HealthCheck))
    @given(H.check.strategy("thorough"))
    def t(case):  # type: ignore[no-untyped-def]
        H.one(case)

    fuzz = t.hypothesis.fuzz_one_input
    state = {"last": time.monotonic(), "t0": time.monotonic()}

    def flush() -> None:
        rep = H.report()
        tmp = a.out + ".tmp"
        with open(tmp, "w") as f:
            json.dump(rep, f, default=str)
        os.replace(tmp, a.out)

    def target(data: bytes) -> None:
        try:
            fuzz(data)
        except hypothesis.errors.HypothesisException:
            pass
        except BaseException:  # noqa: BLE001 - a harness fault: recorded, reported as exit 2 by the runner
            if len(H.harness_errors) < 3:
                H.harness_errors.append(traceback.format_exc())
        H.phase_info["atheris_execs"] += 1
        now = time.monotonic()
        if now - state["last"] > 5:
            state["last"] = now
            flush()

    corpus = a.corpus or tempfile.mkdtemp(prefix=f"vlib_corpus_{a.pid}_")
    os.makedirs(corpus, exist_ok=True)
    flush()
    try:
        atheris.Setup([sys.argv[0], f"-max_total_time={int(a.seconds)}", f"-seed={a.seed * 131 + a.shard + 1}", "-max_len=2048",
                       "-verbosity=0", "-print_final_stats=0", corpus], target)
        atheris.Fuzz()
    finally:
        flush()
    return 0


if __name__ == "__main__":
    rc = main(sys.argv[1:])
    sys.stdout.flush()
    os._exit(rc)
