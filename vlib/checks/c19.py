"""C19 - a composed DAG computes the outputs from the supplied intermediate values."""
import asyncio
from collections import Counter
from typing import Any, Dict, List

from hypothesis import strategies as st

from .. import composeref as cr, gen, prog, sched
from ..harness import CaseResult, Harness
from ..schedcase import Model

PID = "C19"
LEVEL = "exploration"
RULE = (
    "cases = call-only DAG programs (3-8 sites) with kwargs, activation flags, indexed uses of tuple results, a "
    "required and a defaulted DAG parameter, 0-2 stamped setup sites (run in the original before composing, or not) x "
    "(inputs, outputs): disjoint subsets of sites / DAG parameters given through id, node reference, tag or decorated "
    "function, or Ellipsis, single alias or sequence; classes: sufficient, insufficient (a required DAG parameter is "
    "needed but not an input), input-depends-on-input, ambiguous tag, unused input, output upstream of an input x input "
    "values from a truthy/falsy pool; composed as DAG or AsyncDAG. oracle: composed(*vals) == reference evaluation "
    "with the input sites substituted; node entries == sites needed by the outputs and not upstream of inputs (setup "
    "sites already computed are reused); the three error classes raise ValueError at compose time; the canonical dump "
    "of the original DAG and original(*args) are identical before composing, after composing and after running the "
    "composed DAG. non-trivial = some input is a function site used downstream through a kwarg, an index or a flag, "
    "or an error class."
    " Round 9 additions: setup results that cannot be deep-copied; consumers with 10-24 arguments repeating a dependency; thorough tier: one pipeline of 1040-1715 steps per shard (quick tier: one in the regression corpus)."
)
ASSUMPTIONS = ["inputs and outputs are disjoint; setup sites are not used as inputs (tawazi rejects setup nodes fed by DAG inputs)"]
BUDGET = {"quick": {"shards": 8, "seconds": 40}, "thorough": {"shards": 16, "seconds": 420}}


from ..dump import dump  # noqa: E402

import tawazi  # noqa: E402


def run_case(case: Dict[str, Any]) -> CaseResult:
    # RUN_DEBUG_NODES is a run-time switch: `run_debug` is in force for every execution of this case, `compose_debug`
    # only while compose() itself runs (its value at that moment must not matter)
    old_flag = tawazi.cfg.RUN_DEBUG_NODES
    tawazi.cfg.RUN_DEBUG_NODES = bool(case.get("run_debug", True))
    try:
        return _run_case(case)
    finally:
        tawazi.cfg.RUN_DEBUG_NODES = old_flag


def _run_case(case: Dict[str, Any]) -> CaseResult:
    res = CaseResult()
    RD = bool(case.get("run_debug", True))
    P = case["prog"]
    M = Model({"prog": P, "mc": case.get("mc", 2)})
    oargs = [prog.dec(a) for a in case["orig_args"]]
    b = prog.build(P, mc=case.get("mc", 2), is_async=bool(case.get("orig_async")))

    def _now(r: Any) -> Any:
        return asyncio.run(r) if asyncio.iscoroutine(r) else r

    pre: Dict[str, Any] = {}
    R0 = prog.Ref(op=1, run_debug=RD)
    ref_orig = prog.ref_run(P, oargs, R0)
    if case.get("setup_first"):
        ex0 = sched.Exec("free")
        ex0.op = 1
        with ex0:
            _now(b.dag.setup())
        pre = {s: R0.values[s] for s in M.sites if M.spec[s].get("setup")}
    if case.get("draw_first"):
        from ..hist import draw_quietly

        draw_quietly(b.dag)  # the original has been drawn (a read-only operation) before compose() is called
        res.cls("draw-before-compose")
    if case.get("exec_first"):
        # the original has been run through an executor with arguments of its own before compose() is called
        ex0 = sched.Exec("free")
        ex0.op = 1
        try:
            with ex0:
                _now(b.dag.executor()(*[prog.dec(a) for a in case["exec_first"]]))
        except Exception:  # noqa: BLE001 - not what this check judges
            pass
        pre = {s: R0.values[s] for s in M.sites if M.spec[s].get("setup")}
        res.cls("executor-run-before-compose")
    before = dump(b.dag)
    vals = [prog.dec(v) for v in case["vals"]]
    E = cr.compose_expect(P, M, case["inputs"], case["outputs"], vals, pre, single=case.get("single", False),
                          ambiguous=bool(case.get("ambiguous")), run_debug=RD)
    # reference stamps for setup sites computed inside the composed instance: operation 2
    ins = case["inputs"]
    real_inputs = ins
    if case.get("ambiguous"):
        real_inputs = [({"lit": "g1"} if i == case["ambiguous"] else x) for i, x in enumerate(ins)] if ins != "..." else ins
    ex_op = 2
    got: Dict[str, Any] = {}
    old_op = None
    try:
        # the composed DAG runs as operation 2
        got = _run_composed(b, P, real_inputs, case, vals, ex_op)
    finally:
        del old_op
    tag = f" [compose(inputs={case['inputs']}, outputs={case['outputs']}, single={case.get('single')}) vals={case['vals']} setup_first={case.get('setup_first')}]"
    res.evals = 1
    cls = E.error or "sufficient"
    if E.error:
        exc = got.get("compose_exc")
        if exc is None:
            res.viol("compose-should-have-raised", f"class {E.error}: compose returned a DAG" + tag)
        elif not isinstance(exc, ValueError):
            res.viol("compose-wrong-exception", f"class {E.error}: raised {type(exc).__name__}: {str(exc)[:200]}" + tag)
    else:
        if got.get("compose_exc") is not None:
            e = got["compose_exc"]
            res.viol("compose-raised", f"compose raised {type(e).__name__}: {str(e)[:300]}" + tag)
        elif got.get("call_exc") is not None:
            e = got["call_exc"]
            res.viol("composed-call-raised", f"the composed DAG raised {type(e).__name__}: {str(e)[:300]}" + tag)
        else:
            Rc = _ref_with_stamps(P, M, case, vals, pre)
            if got["value"] != Rc["value"]:
                res.viol("composed-value", f"the composed DAG returned {got['value']!r}, reference {Rc['value']!r}" + tag)
            entered = Counter(M.site_of_key.get(e["site"], e["site"]) for e in got["ex"].events if e["k"] == "ENTER")
            if entered != Counter(Rc["executed"]):
                res.viol("composed-entries", f"the composed DAG entered {sorted(entered.items())}, expected {sorted(Counter(Rc['executed']).items())}" + tag)
            if E.unused_inputs:
                cls = "unused-input"
                if not got.get("warnings"):
                    res.cls("unused-input-no-warning")
    # the original is untouched
    after = dump(b.dag)
    if after != before:
        diff = [k for k in range(len(before)) if before[k] != after[k]]
        res.viol("original-changed", f"composing / running the composed DAG changed the original DAG (dump fields {diff})" + tag)
    ex3 = sched.Exec("free")
    ex3.op = 3
    try:
        with ex3:
            v = _now(b.dag(*oargs))
        R3 = prog.Ref(op=3, pre=dict(pre), run_debug=RD)
        want = prog.ref_run(P, oargs, R3)
        if v != want:
            res.viol("original-behaviour-changed", f"after compose the original returns {v!r}, reference {want!r}" + tag)
    except BaseException as e:  # noqa: BLE001
        if isinstance(e, KeyboardInterrupt):
            raise
        res.viol("original-behaviour-changed", f"after compose the original raises {type(e).__name__}: {str(e)[:200]}" + tag)
    # classification
    uses = cr._uses(P)
    special_use = False
    for s in P["body"]:
        for how, exprs in (("kw", list(s["kwargs"].values())), ("flag", [s.get("active")]), ("pos", s["args"])):
            for e in exprs:
                if e is None:
                    continue
                root = e
                idx = False
                while root[0] == "i":
                    root, idx = root[1], True
                if root[0] == "v":
                    src = [x["site"] for x in P["body"] if x["out"] == root[1]][0]
                    if ins != "..." and src in ins and (how in ("kw", "flag") or idx) and s["site"] in E.needed:
                        special_use = True
    res.nontrivial = special_use or bool(E.error)
    res.cls("class-" + cls, "single" if case.get("single") else "sequence")
    if ins == "...":
        res.cls("ellipsis")
    if special_use:
        res.cls("input-used-via-kw/index/flag")
    res.note = {"class": cls, "needed": sorted(E.needed)}
    del uses
    return res


def _ref_with_stamps(P: Dict[str, Any], M: Model, case: Dict[str, Any], vals: List[Any], pre: Dict[str, Any]) -> Dict[str, Any]:
    params = [n for n, _d in P["params"]]
    required = [n for n, d in P["params"] if d is None]
    ins = list(params) if case["inputs"] == "..." else case["inputs"]
    E = cr.compose_expect(P, M, case["inputs"], case["outputs"], vals, pre, single=case.get("single", False), run_debug=bool(case.get("run_debug", True)))
    R = prog.Ref(selected=E.needed | {i for i in ins if i not in params}, pre={s: v for s, v in pre.items() if s not in ins},
                 substitute=dict(zip(ins, vals)), op=2, run_debug=bool(case.get("run_debug", True)))
    prog.ref_run(P, [None] * len(required), R)
    outs = [None if R.values[o] is prog.NOTRUN else R.values[o] for o in case["outputs"]]
    return {"value": outs[0] if case.get("single") else tuple(outs), "executed": list(R.executed)}


def _run_composed(b: prog.Built, P: Dict[str, Any], real_inputs: Any, case: Dict[str, Any], vals: List[Any], op: int) -> Dict[str, Any]:
    import warnings

    import tawazi

    out: Dict[str, Any] = {}
    forms = case.get("forms") or {}
    try:
        ins = ... if real_inputs == "..." else [cr.real_alias(b, P, a, forms.get(str(a), "id")) for a in real_inputs]
        outs_l = [cr.real_alias(b, P, o, forms.get(str(o), "id")) for o in case["outputs"]]
        outs: Any = outs_l[0] if case.get("single") else outs_l
        kw = {} if case.get("as_async") is None else {"is_async": case["as_async"]}
        with warnings.catch_warnings(record=True) as w:
            warnings.simplefilter("always")
            tawazi.cfg.RUN_DEBUG_NODES = bool(case.get("compose_debug", case.get("run_debug", True)))
            try:
                c = b.dag.compose("CMP", ins, outs, **kw)
            finally:
                tawazi.cfg.RUN_DEBUG_NODES = bool(case.get("run_debug", True))
        out["warnings"] = [str(x.message) for x in w]
    except BaseException as e:  # noqa: BLE001
        if isinstance(e, KeyboardInterrupt):
            raise
        out["compose_exc"] = e
        return out
    ex = sched.Exec("free")
    ex.op = op
    out["ex"] = ex
    try:
        with ex:
            out["value"] = asyncio.run(c(*vals)) if isinstance(c, tawazi.AsyncDAG) else c(*vals)
    except BaseException as e:  # noqa: BLE001
        if isinstance(e, KeyboardInterrupt):
            raise
        out["call_exc"] = e
    return out


@st.composite
def cases(draw: Any, tier: str) -> Dict[str, Any]:
    P = draw(gen.flat_prog(min_sites=3, max_sites=8, max_deps=3, resources=gen.RES, dep_kinds=("pos", "kw", "flag"),
                           n_setup=draw(st.integers(0, 2)), stamp_setup=True, n_params=2, index_rate=0.3, prio_range=(-1, 2),
                           n_debug=draw(st.sampled_from([0, 0, 1, 2])), many_args_rate=0.06))
    P["params"] = [["p0", None], ["p1", {"d": draw(st.sampled_from([5, "d1", 0]))}]]
    for f_ in P["fns"].values():
        if f_.get("setup") and f_.get("kind") == "term" and draw(st.sampled_from([True, False, False])):
            f_["kind"] = "nocopy"  # data: a setup result that can be neither deep-copied nor pickled (a connection, a lock)
    sites = [s["site"] for s in P["body"]]
    # setup sites can not be inputs (a setup node must not depend on a DAG input); debug sites are not offered either
    nonsetup = [s["site"] for s in P["body"] if not P["fns"][s["fn"]].get("setup") and not P["fns"][s["fn"]].get("debug")]
    case: Dict[str, Any] = {"prog": P, "mc": draw(st.integers(1, 3)), "setup_first": draw(st.booleans()),
                            "run_debug": draw(st.booleans()), "compose_debug": draw(st.booleans()),
                            "orig_args": [draw(st.sampled_from([0, 1, "a"]))] + ([draw(st.sampled_from([2, "b"]))] if draw(st.booleans()) else [])}
    deps = gen.deps_of(P)
    anc = gen.ancestors(deps)
    if draw(st.sampled_from([True] + [False] * 9)):
        case["inputs"] = "..."
        nin = 2
        case["outputs"] = draw(st.lists(st.sampled_from(sites), min_size=1, max_size=3, unique=True))
    else:
        case["outputs"] = draw(st.lists(st.sampled_from(sites), min_size=1, max_size=3, unique=True))
        up = set()
        for o in case["outputs"]:
            up |= anc[o]
        up_pool = [s for s in nonsetup if s in up and s not in case["outputs"]] + ["p0", "p1"]
        any_pool = [s for s in nonsetup if s not in case["outputs"]] + ["p0", "p1"]
        pool_in = up_pool if draw(st.sampled_from([True, True, True, True, False])) else any_pool
        case["inputs"] = draw(st.lists(st.sampled_from(pool_in), min_size=0, max_size=3, unique=True))
        nin = len(case["inputs"])
    ins = case["inputs"] if case["inputs"] != "..." else []
    case["single"] = len(case["outputs"]) == 1 and draw(st.booleans())
    case["vals"] = [prog.enc(draw(st.sampled_from([0, 1, "", "w", None, (3, 4), ("u", 0)]))) for _ in range(nin)]
    # values for inputs whose results get indexed downstream must be indexable: use pairs there
    for k, name in enumerate(ins):
        st_ = [s for s in P["body"] if s["site"] == name]
        if st_ and P["fns"][st_[0]["fn"]].get("kind") == "tup":
            case["vals"][k] = prog.enc(draw(st.sampled_from([(3, 4), ("u", 0), (0, 1)])))
        if st_ and P["fns"][st_[0]["fn"]].get("kind") == "dict":
            case["vals"][k] = prog.enc({"a": draw(st.sampled_from([0, "A"])), "b": [draw(st.sampled_from([1, ""])), (2, draw(st.sampled_from([0, 3])))]})
    forms = {}
    first_use: Dict[str, str] = {}
    for s in P["body"]:
        first_use.setdefault(s["fn"], s["site"])
    for name in list(ins) + case["outputs"]:
        if name.startswith(prog.MARK):
            opts = ["id", "node", "tag"]
            fn = [s for s in P["body"] if s["site"] == name][0]["fn"]
            if first_use[fn] == name:
                opts.append("fn")
            forms[name] = draw(st.sampled_from(opts))
    byobj = [n for n, f in forms.items() if f in ("fn", "node")]
    if byobj and draw(st.sampled_from([True, False, False])):
        # another site carries a TAG spelled like the id of a node that is passed as an object (node / decorated
        # function): objects denote themselves, whatever tags exist (string aliases all go through site tags here)
        bname = draw(st.sampled_from(byobj))
        bfn = [s for s in P["body"] if s["site"] == bname][0]["fn"]
        others = [s for s in P["body"] if s["site"] != bname]
        if others:
            a = draw(st.sampled_from(others))
            a["tags"] = list(a.get("tags") or []) + [P["fns"][bfn].get("qual", bfn)]
            for n in forms:
                if forms[n] == "id":
                    forms[n] = "tag"
            case["shadow_tag"] = True
    case["forms"] = forms
    # an executor run with its own arguments before composing: compose must still see the original's defaults only
    case["exec_first"] = draw(st.sampled_from([None, None, [prog.enc(draw(st.sampled_from([7, "z"]))), prog.enc(draw(st.sampled_from([8, "y"])))]]))
    case["draw_first"] = draw(st.sampled_from([True, False, False, False]))
    case["orig_async"] = draw(st.sampled_from([False, False, True]))  # the original may be an AsyncDAG
    case["as_async"] = draw(st.sampled_from([None, None, False, True]))
    if ins and draw(st.integers(0, 11)) == 0:
        # ambiguous alias: a group tag carried by two sites replaces one input alias
        a, b2 = draw(st.lists(st.sampled_from(P["body"]), min_size=2, max_size=2, unique_by=lambda x: x["site"]))
        a["tags"] = ["g1"]
        b2["tags"] = ["g1"]
        case["ambiguous"] = draw(st.integers(0, len(ins) - 1))
    return case


def strategy(tier: str) -> Any:
    return cases(tier)


def deep_chain_case(n: int, cut: Any, vals: List[Any]) -> Dict[str, Any]:
    """Scale: a pipeline of n steps (one function used at n call sites, each step consuming the previous one), composed
    from nothing (inputs=[]) or from one step in the middle to its last step."""
    body = []
    for i in range(n):
        body.append({"k": "call", "fn": "step", "site": gen.site(i), "mark": True, "args": [["p", "p0"]] if i == 0 else [["v", f"v{i - 1}"]],
                     "kwargs": {}, "active": None, "unpack": None, "tags": [], "out": f"v{i}"})
    P = {"name": "CHAIN", "params": [["p0", {"d": 3}]], "fns": {"step": {"kind": "term", "res": "thread"}}, "body": body,
         "ret": ["T", [["v", f"v{n - 1}"]]]}
    return {"prog": P, "mc": 1, "setup_first": False, "run_debug": False, "compose_debug": False, "orig_args": [],
            "inputs": [] if cut is None else [gen.site(cut)], "outputs": [gen.site(n - 1)], "single": False, "vals": vals, "forms": {},
            "exec_first": None, "draw_first": False, "orig_async": False, "as_async": None, "deep_chain": n}


def run_shard(H: Harness) -> None:
    if H.tier == "thorough":
        # scale: one deep pipeline per shard (deeper than Python's default recursion limit), composed from nothing or
        # from one of its first steps; the quick tier has one such case in its regression corpus (replays/C19/f13-*)
        n = 1040 + 45 * H.shard
        H.one(deep_chain_case(n, None if H.shard % 2 == 0 else 3 + H.shard, [] if H.shard % 2 == 0 else [prog.enc("w")]))
    H.run_hypothesis(strategy)


MANIFEST = {
    "engine": "prog",
    "technique": "property-based testing: generated DAGs x (inputs, outputs) selections through every alias form x input values, differential against a substitution-based reference evaluation, before/after canonical dump of the original",
    "level_text": "Exploration over programs x (inputs, outputs) x alias forms x values, with an independent reference (the original program evaluated with the input sites substituted and only the needed sites selected); error classes are decided by the harness's own dependency analysis; the original DAG is dumped and called before and after.",
    "level_note": "Trusted: vlib/composeref.py (needed-set / error-class analysis) and the reference evaluator.",
}
