"""C16 - tawazi is thread-safe: concurrent runs and builds do not interfere."""
import queue
import threading
import time
from typing import Any, Dict, List, Optional

from hypothesis import strategies as st

from .. import gen, prog, richgen, sched
from ..dump import dump
from ..harness import CaseResult, Harness

PID = "C16"
LEVEL = "exploration"
RULE = (
    "two case families. (script) 2-3 threads, each with a list of operations in {call the SHARED DAG with its own "
    "arguments, build a DAG from a generated program (optionally pausing inside the describing function at a drawn "
    "statement boundary, i.e. while tawazi's description lock is held), run the shared DAG through an executor object of the thread's own, call a decorated function outside any DAG, "
    "reload the configuration of a DAG owned by that thread and run it}; a "
    "drawn global order steps the threads one stop point at a time, so calls and outside-DAG invocations happen WHILE "
    "another thread is inside a description. oracle: each call returns the reference value for its own arguments; an "
    "outside-DAG call raises TawaziUsageError / returns the plain value (per cfg.TAWAZI_EXECNODE_OUTSIDE_DAG_BEHAVIOR) "
    "regardless of foreign builds; the canonical dump (ids, references, attributes, constants) of every DAG built "
    "under interference equals the dump of the same program built alone, and it computes the reference. (stress) 8 "
    "free-running threads x 20-60 calls of one DAG with distinct arguments. non-trivial = some call or outside-DAG "
    "invocation happened while another thread was paused inside a description, or a stress case."
    " Round 8-10 additions: builds that nest a DAG and builds refused inside the nested expansion; every worker thread carries the same thread name."
)
ASSUMPTIONS = [
    "setup nodes of the shared DAG are run before sharing; one executor per thread (documented restrictions)",
    "interleavings are owned at describing-statement / call granularity; bytecode-level races only through the stress family",
]
BUDGET = {"quick": {"shards": 8, "seconds": 40}, "thorough": {"shards": 16, "seconds": 420}}
STEP_WAIT = 0.25


def _now(r: Any) -> Any:
    """AsyncDAG flavour: the thread awaits the DAG in an event loop of its own."""
    import asyncio

    return asyncio.run(r) if asyncio.iscoroutine(r) else r


class UserBug(Exception):
    """An error in the user's describing function (the build must fail cleanly and leave no trace)."""


class Worker(threading.Thread):
    def __init__(self, idx: int, ops: List[Dict[str, Any]], shared: Any, outside: Any, shared_prog: Dict[str, Any],
                 private: Any = None) -> None:
        # (all the threads of a case carry ONE name, as the workers of an application often do: a thread is
        # identified by what it is, never by what it is called)
        super().__init__(daemon=True, name="worker")
        self.idx, self.ops, self.shared, self.outside, self.sp = idx, ops, shared, outside, shared_prog
        self.private = private  # a DAG owned by this thread alone (built before the threads start)
        self.go = threading.Semaphore(0)
        self.stopped = threading.Event()  # set whenever the thread reaches a stop point
        self.paused = False
        self.done = False
        self.results: List[Dict[str, Any]] = []
        self.cur = -1

    def stop_point(self, paused: bool) -> None:
        self.paused = paused
        self.stopped.set()
        self.go.acquire()
        self.paused = False

    def run(self) -> None:
        self.go.acquire()
        for i, op in enumerate(self.ops):
            self.cur = i
            r: Dict[str, Any] = {"op": op}
            try:
                if op["op"] == "call":
                    ex = sched.Exec("free")
                    with ex:
                        if op.get("via") == "executor":
                            # the documented per-thread way of running a shared DAG: an executor object of one's own
                            r["value"] = _now(self.shared.dag.executor()(*[prog.dec(a) for a in op["args"]]))
                        else:
                            r["value"] = _now(self.shared.dag(*[prog.dec(a) for a in op["args"]]))
                elif op["op"] == "compose":
                    # deriving a DAG from the shared one (what it computes is C19's business) must leave the shared DAG alone
                    ids_ = self.shared.node_ids()
                    try:
                        self.shared.dag.compose(f"cmp{self.idx}_{i}", [ids_[s] for s in op["inputs"]], [ids_[s] for s in op["outputs"]])
                    except ValueError:
                        pass
                elif op["op"] == "outside":
                    r["value"] = self.outside(prog.dec(op["arg"]))
                elif op["op"] == "reconf":
                    # reload the configuration of this thread's own DAG (possibly while another thread describes one)
                    self.private.dag.config_from_dict(op["conf"])
                    r["dump"] = dump(self.private.dag)
                    ex = sched.Exec("free")
                    with ex:
                        r["value"] = self.private.dag()
                elif op["op"] == "build":
                    k = op.get("pause")

                    def on_stmt(j: int, k: Any = k, boom: Any = op.get("raise_at")) -> None:
                        if k is not None and j == k:
                            self.stop_point(True)
                        if boom is not None and j == boom:
                            raise UserBug(f"the describing function raises at statement {j}")

                    b = prog.build(op["prog"], mc=2, on_stmt=on_stmt)
                    r["dump"] = dump(b.dag)
                    ex = sched.Exec("free")
                    with ex:
                        r["value"] = b.dag(*[prog.dec(a) for a in op.get("args", [])])
            except BaseException as e:  # noqa: BLE001
                r["exc"] = e
            self.results.append(r)
            if i < len(self.ops) - 1:
                self.stop_point(False)
        self.done = True
        self.stopped.set()


def _wait_step(w: "Worker") -> bool:
    """Wait until the worker reaches its next stop point, or is seen blocked on tawazi's description lock
    (its innermost Python frame is the lock acquisition in threadsafe_make_dag), or STEP_WAIT has passed."""
    import sys

    end = time.monotonic() + STEP_WAIT
    seen_blocked = 0
    while time.monotonic() < end:
        if w.stopped.wait(0.003):
            return True
        fr = sys._current_frames().get(w.ident)
        if fr is not None and fr.f_code.co_name == "threadsafe_make_dag":
            seen_blocked += 1
            if seen_blocked >= 3:  # three consecutive samples: it is waiting for the lock, not passing by
                return False
        else:
            seen_blocked = 0
    return w.stopped.is_set()


def _blocked_in_tawazi(w: "Worker") -> str:
    """Structural witness that a thread is stuck inside tawazi (not merely slow): its innermost Python frame is
    the same tawazi source line in 6 samples spread over >= 1.2 s while the description lock is held."""
    import sys

    from tawazi.node import node as tnode

    seen = None
    for _ in range(6):
        if w.stopped.is_set() or not tnode.exec_nodes_lock.locked():
            return ""
        fr = sys._current_frames().get(w.ident)
        if fr is None or "/tawazi/" not in fr.f_code.co_filename:
            return ""
        here = f"{fr.f_code.co_filename}:{fr.f_lineno}:{fr.f_code.co_name}"
        if seen is not None and here != seen:
            return ""
        seen = here
        time.sleep(0.24)
    return seen or ""


def _script(case: Dict[str, Any], res: CaseResult) -> None:
    import tawazi
    from tawazi.consts import XNOutsideDAGCall
    from tawazi.errors import TawaziUsageError

    SP = case["shared"]
    old = tawazi.cfg.TAWAZI_EXECNODE_OUTSIDE_DAG_BEHAVIOR
    tawazi.cfg.TAWAZI_EXECNODE_OUTSIDE_DAG_BEHAVIOR = XNOutsideDAGCall(case.get("outside_behavior", "error"))
    try:
        shared = prog.build(SP, mc=2, is_async=bool(case.get("shared_async")))
        _now(shared.dag.setup())
        shared_before = dump(shared.dag)
        outside_fn = prog.make_body("outfn", {"kind": "term"})
        outside = tawazi.xn(outside_fn)
        # reference dumps: every build program alone
        alone: Dict[str, Any] = {}
        for ti, ops in enumerate(case["threads"]):
            for oi, op in enumerate(ops):
                if op["op"] == "build" and op.get("raise_at") is None and not op.get("refused_in_sub"):
                    alone[f"{ti}.{oi}"] = dump(prog.build(op["prog"], mc=2).dag)
            if case.get("private"):
                # the same reconfigurations applied in the same order to a DAG nobody interferes with
                pb = prog.build(case["private"], mc=2)
                for oi, op in enumerate(ops):
                    if op["op"] == "reconf":
                        pb.dag.config_from_dict(op["conf"])
                        alone[f"{ti}.{oi}"] = dump(pb.dag)
        PP = case.get("private")
        privates = [prog.build(PP, mc=2) if PP else None for _ in case["threads"]]
        workers = [Worker(i, ops, shared, outside, SP, privates[i]) for i, ops in enumerate(case["threads"])]
        for w in workers:
            w.start()
        during_pause = 0
        started = [False] * len(workers)
        for t in case["order"]:
            w = workers[t % len(workers)]
            if w.done:
                continue
            others_paused = any(o.paused for o in workers if o is not w)
            if not w.stopped.is_set() and started[w.idx]:
                continue  # still blocked from an earlier step (waiting for the description lock)
            nxt = w.cur + (0 if w.paused else 1)
            w.stopped.clear()
            started[w.idx] = True
            w.go.release()
            reached = _wait_step(w)
            if others_paused and reached and nxt < len(w.ops) and w.ops[nxt]["op"] in ("call", "outside", "reconf", "compose"):
                during_pause += 1
            if others_paused and not reached and nxt < len(w.ops) and w.ops[nxt]["op"] in ("call", "outside", "reconf", "compose"):
                wit = _blocked_in_tawazi(w)
                if wit:
                    res.viol("blocked-by-foreign-description", f"thread {w.idx} op {nxt} ({w.ops[nxt]['op']}) does not finish while another thread is paused inside a DAG description: it is blocked at {wit}")
        # drain: release everything until all threads are done
        end = time.monotonic() + 20.0
        while not all(w.done for w in workers) and time.monotonic() < end:
            for w in workers:
                if not w.done and (w.stopped.is_set() or not started[w.idx]):
                    w.stopped.clear()
                    started[w.idx] = True
                    w.go.release()
            time.sleep(0.002)
        if not all(w.done for w in workers):
            res.inconclusive = "threads-did-not-finish"
            for w in workers:  # let daemon threads go
                for _ in range(50):
                    w.go.release()
            return
        for w in workers:
            for oi, r in enumerate(w.results):
                op = r["op"]
                tag = f" [thread {w.idx} op {oi}: {op['op']} {op.get('args', op.get('arg', ''))}]"
                if op["op"] == "call":
                    want = prog.ref_run(SP, [prog.dec(a) for a in op["args"]], prog.Ref())
                    if "exc" in r:
                        res.viol("call-raised", f"calling the shared DAG raised {type(r['exc']).__name__}: {str(r['exc'])[:200]}" + tag)
                    elif prog.foreign_objects(r["value"]):
                        res.viol("call-described-instead-of-run", f"calling the shared DAG returned {prog.foreign_objects(r['value'])[:3]} (it was recorded into another thread's description instead of being executed)" + tag)
                    elif r["value"] != want:
                        res.viol("call-value", f"the shared DAG returned {r['value']!r}, reference {want!r}" + tag)
                elif op["op"] == "reconf":
                    if "exc" in r:
                        res.viol("reconf-raised", f"config_from_dict on a thread's own DAG raised {type(r['exc']).__name__}: {str(r['exc'])[:200]}" + tag)
                        continue
                    if r["dump"] != alone[f"{w.idx}.{oi}"]:
                        res.viol("reconf-differs", "a DAG reconfigured while other threads were active differs from the same DAG reconfigured alone" + tag)
                    want = prog.ref_run(case["private"], [], prog.Ref())
                    if prog.foreign_objects(r.get("value")) or r.get("value") != want:
                        res.viol("reconf-dag-value", f"a DAG reconfigured while other threads were active returns {r.get('value')!r}, reference {want!r}" + tag)
                elif op["op"] == "compose":
                    if "exc" in r:
                        res.viol("compose-raised", f"compose() on the shared DAG raised {type(r['exc']).__name__}: {str(r['exc'])[:200]}" + tag)
                elif op["op"] == "outside":
                    beh = case.get("outside_behavior", "error")
                    if beh == "error":
                        if not isinstance(r.get("exc"), TawaziUsageError):
                            res.viol("outside-call", f"a decorated function called outside any DAG gave {r.get('value', r.get('exc'))!r} instead of raising TawaziUsageError" + tag)
                    else:
                        want = prog.compute("outfn", {"kind": "term"}, None, (prog.dec(op["arg"]),), {})
                        if "exc" in r or prog.foreign_objects(r.get("value")) or r.get("value") != want:
                            res.viol("outside-call", f"a decorated function called outside any DAG gave {r.get('value', r.get('exc'))!r}, plain call gives {want!r}" + tag)
                else:
                    if op.get("raise_at") is not None:
                        # a describing function with a bug: the build fails with the user's own exception and that is all
                        if not isinstance(r.get("exc"), UserBug):
                            res.viol("failing-build", f"a describing function that raises gave {r.get('exc', r.get('value'))!r} instead of its own exception" + tag)
                        continue
                    if op.get("refused_in_sub"):
                        if "exc" in r:
                            res.cls("build-refused-inside-nested-dag")
                        continue  # (whether tawazi refuses this description is not C16's business; what follows it is)
                    if "exc" in r:
                        res.viol("build-raised", f"building raised {type(r['exc']).__name__}: {str(r['exc'])[:200]}" + tag)
                        continue
                    if r["dump"] != alone[f"{w.idx}.{oi}"]:
                        a, b_ = alone[f"{w.idx}.{oi}"], r["dump"]
                        extra = sorted(set(b_[0]) - set(a[0]))
                        missing = sorted(set(a[0]) - set(b_[0]))
                        res.viol("build-differs", f"a DAG built while other threads were active differs from the same DAG built alone: extra nodes {extra[:6]}, missing {missing[:6]}" + tag)
                    want = prog.ref_run(op["prog"], [prog.dec(a) for a in op.get("args", [])], prog.Ref())
                    if prog.foreign_objects(r.get("value")) or r.get("value") != want:
                        res.viol("built-dag-value", f"a DAG built while other threads were active returns {r.get('value')!r}, reference {want!r}" + tag)
        if dump(shared.dag) != shared_before:
            res.viol("shared-dag-changed", "the DAG shared by the threads is not what it was before they used it (calls, executors, compose() must leave it alone)")
        # when everything is over the process-wide configuration is what the user set, and acts accordingly
        now = tawazi.cfg.TAWAZI_EXECNODE_OUTSIDE_DAG_BEHAVIOR
        if now != XNOutsideDAGCall(case.get("outside_behavior", "error")):
            res.viol("configuration-changed", f"cfg.TAWAZI_EXECNODE_OUTSIDE_DAG_BEHAVIOR is {now!r} after the threads finished, the user had set {case.get('outside_behavior', 'error')!r}")
        res.evals = sum(len(o) for o in case["threads"])
        res.nontrivial = during_pause > 0
        res.cls("script", f"threads-{len(workers)}")
        if any(op.get("raise_at") is not None for ops in case["threads"] for op in ops):
            res.cls("failing-build")
        if any(op.get("op") == "build" and op["prog"]["body"] and op["prog"]["body"][0]["k"] == "sub" for ops in case["threads"] for op in ops):
            res.cls("build-with-nested-dag")
        if during_pause:
            res.cls("op-during-foreign-description")
        res.note = {"ops_during_foreign_description": during_pause}
    finally:
        tawazi.cfg.TAWAZI_EXECNODE_OUTSIDE_DAG_BEHAVIOR = old


def _stress(case: Dict[str, Any], res: CaseResult) -> None:
    import tawazi
    from tawazi.consts import XNOutsideDAGCall
    from tawazi.errors import TawaziUsageError

    SP = case["shared"]
    shared = prog.build(SP, mc=case.get("mc", 2), is_async=bool(case.get("shared_async")))
    _now(shared.dag.setup())
    cfg_before = tawazi.cfg.TAWAZI_EXECNODE_OUTSIDE_DAG_BEHAVIOR
    outside = tawazi.xn(prog.make_body("outfn", {"kind": "term"}))
    outside_results: List[Any] = []
    sleeps = {s["site"]: 1 + (j % 3) for j, s in enumerate(SP["body"])}
    n_threads, n_calls = case["n_threads"], case["n_calls"]
    errs: List[str] = []
    barrier = threading.Barrier(n_threads)

    def work(t: int) -> None:
        try:
            barrier.wait(10)
            for i in range(n_calls):
                a = [t * 1000 + i]
                # node functions sleep a little (GIL released), so executions of different threads really overlap
                with sched.Exec("free", sleeps=sleeps, watchdog=False):
                    v = _now(shared.dag(*a))
                want = prog.ref_run(SP, a, prog.Ref())
                if v != want:
                    errs.append(f"thread {t} call {i} args {a}: returned {v!r}, reference {want!r}")
                    return
                if t == 0 and i % 3 == 0:
                    # a decorated function called outside any DAG while the other threads are running DAGs
                    try:
                        outside_results.append(("returned", outside(i)))
                    except TawaziUsageError:
                        outside_results.append(("raised", None))
        except BaseException as e:  # noqa: BLE001
            errs.append(f"thread {t}: {type(e).__name__}: {str(e)[:200]}")

    ths = [threading.Thread(target=work, args=(t,), daemon=True, name="worker") for t in range(n_threads)]
    for th in ths:
        th.start()
    for th in ths:
        th.join(60)
    if any(th.is_alive() for th in ths):
        res.inconclusive = "stress-threads-did-not-finish"
        return
    if errs:
        res.viol("stress-value", errs[0])
    if cfg_before == XNOutsideDAGCall.error:
        bad = [r for r in outside_results if r[0] != "raised"]
        if bad:
            res.viol("outside-call", f"a decorated function called outside any DAG while other threads run DAGs gave {bad[0]!r} instead of raising TawaziUsageError ({len(bad)} of {len(outside_results)} calls)")
    if tawazi.cfg.TAWAZI_EXECNODE_OUTSIDE_DAG_BEHAVIOR != cfg_before:
        res.viol("configuration-changed", f"cfg.TAWAZI_EXECNODE_OUTSIDE_DAG_BEHAVIOR is {tawazi.cfg.TAWAZI_EXECNODE_OUTSIDE_DAG_BEHAVIOR!r} after the runs, it was {cfg_before!r}")
        tawazi.cfg.TAWAZI_EXECNODE_OUTSIDE_DAG_BEHAVIOR = cfg_before
    res.evals = n_threads * n_calls
    res.nontrivial = True
    res.cls("stress")


def _buildstress(case: Dict[str, Any], res: CaseResult) -> None:
    """Free-running builds: every thread describes its own DAG again and again while the others do the same, with
    the interpreter switching threads as often as it can (sys.setswitchinterval(1e-6)), so that hand-overs of
    tawazi's build lock between builders happen at every possible bytecode."""
    import sys

    progs = case["progs"]
    alone = [dump(prog.build(P, mc=2).dag) for P in progs]
    want = [prog.ref_run(P, [], prog.Ref()) for P in progs]
    errs: List[str] = []
    n_rounds = case["n_rounds"]
    barrier = threading.Barrier(len(progs))

    def work(t: int) -> None:
        try:
            barrier.wait(10)
            for i in range(n_rounds):
                b = prog.build(progs[t], mc=2)
                if dump(b.dag) != alone[t]:
                    errs.append(f"thread {t} build {i}: the DAG differs from the same DAG built alone")
                    return
                if i % 4 == 0:
                    v = b.dag()
                    if prog.foreign_objects(v) or v != want[t]:
                        errs.append(f"thread {t} build {i}: the built DAG returns {v!r}, reference {want[t]!r}")
                        return
        except BaseException as e:  # noqa: BLE001
            errs.append(f"thread {t}: building raised {type(e).__name__}: {str(e)[:200]}")

    old = sys.getswitchinterval()
    sys.setswitchinterval(1e-6)
    try:
        ths = [threading.Thread(target=work, args=(t,), daemon=True, name="worker") for t in range(len(progs))]
        for th in ths:
            th.start()
        for th in ths:
            th.join(90)
    finally:
        sys.setswitchinterval(old)
    if any(th.is_alive() for th in ths):
        res.inconclusive = "buildstress-threads-did-not-finish"
        return
    if errs:
        res.viol("concurrent-build", errs[0])
    res.evals = len(progs) * n_rounds
    res.nontrivial = True
    res.cls("build-stress")


def run_case(case: Dict[str, Any]) -> CaseResult:
    res = CaseResult()
    if case["family"] == "buildstress":
        _buildstress(case, res)
    elif case["family"] == "stress":
        _stress(case, res)
    else:
        _script(case, res)
    return res


@st.composite
def cases(draw: Any, tier: str) -> Dict[str, Any]:
    shared = draw(gen.flat_prog(min_sites=2, max_sites=5, max_deps=2, resources=gen.RES, dep_kinds=("pos", "kw"), n_params=1,
                                n_setup=draw(st.integers(0, 1)), name="S"))
    # make sure the argument matters
    shared["body"][-1]["args"].append(["p", "p0"])
    if draw(st.booleans()):
        shared["params"] = [["p0", {"d": draw(st.sampled_from([7, "dflt"]))}]]  # calls may then omit the argument
    if draw(st.sampled_from([True] + [False] * 11)):
        progs = [draw(gen.flat_prog(min_sites=1, max_sites=4, max_deps=2, resources=("thread", "main-thread"),
                                    dep_kinds=("pos", "kw"), name=f"BS{t}", reuse=True)) for t in range(draw(st.integers(2, 4)))]
        return {"family": "buildstress", "progs": progs, "n_rounds": draw(st.integers(10, 30))}
    if draw(st.sampled_from([True] + [False] * 9)):
        return {"family": "stress", "shared": shared, "n_threads": 8, "n_calls": draw(st.integers(10, 40)), "mc": draw(st.integers(1, 3)),
                "shared_async": draw(st.sampled_from([False, False, True]))}
    nthreads = draw(st.integers(2, 3))
    private = draw(gen.flat_prog(min_sites=2, max_sites=4, max_deps=2, resources=("thread", "main-thread"),
                                 dep_kinds=("pos", "kw"), name="PV", prio_range=(0, 2)))
    psites = [s["site"].lstrip(prog.MARK) for s in private["body"]]
    threads: List[List[Dict[str, Any]]] = []
    nb = 0
    for t in range(nthreads):
        ops: List[Dict[str, Any]] = []
        for _ in range(draw(st.integers(1, 3))):
            k = draw(st.sampled_from(["call", "call", "outside", "build", "build", "reconf", "compose"]))
            if t == 0 and not ops:
                k = "build"  # thread 0 starts with a (usually pausing) build
            if k == "call":
                ops.append({"op": "call", "args": ([] if (shared["params"][0][1] is not None and draw(st.booleans()))
                                                   else [draw(st.sampled_from([0, 1, 10, "a", None]))]),
                            "via": draw(st.sampled_from(["call", "call", "executor"]))})
            elif k == "compose":
                ssites = [s["site"] for s in shared["body"] if not shared["fns"][s["fn"]].get("setup")]
                outs_ = draw(st.lists(st.sampled_from(ssites), min_size=1, max_size=2, unique=True))
                ins_ = draw(st.lists(st.sampled_from([s for s in ssites if s not in outs_] or ssites[:0]), min_size=0, max_size=1, unique=True)) if len(ssites) > len(outs_) else []
                ops.append({"op": "compose", "inputs": ins_, "outputs": outs_})
            elif k == "outside":
                ops.append({"op": "outside", "arg": draw(st.sampled_from([5, "z"]))})
            elif k == "reconf":
                some = draw(st.lists(st.sampled_from(psites), min_size=1, max_size=len(psites), unique=True))
                ops.append({"op": "reconf", "conf": {"nodes": {t_: {"priority": draw(st.integers(-2, 4)), "is_sequential": draw(st.booleans())} for t_ in some}}})
            else:
                P = draw(gen.flat_prog(min_sites=1, max_sites=4, max_deps=2, resources=("thread", "main-thread"),
                                       dep_kinds=("pos", "kw"), name=f"B{nb}", reuse=True))
                nb += 1
                pause = draw(st.one_of(st.none(), st.integers(0, len(P["body"]) - 1))) if not (t == 0 and not ops) else draw(st.integers(0, len(P["body"]) - 1))
                op_b: Dict[str, Any] = {"op": "build", "prog": P, "pause": pause, "args": []}
                if draw(st.sampled_from([True] + [False] * 5)):
                    # the describing function raises (at or after the pause point): the lock / build state must be
                    # released so that every later operation of every thread behaves as usual
                    op_b["raise_at"] = draw(st.integers(pause if pause is not None else 0, len(P["body"]) - 1))
                elif gen.chance(draw, 0.35):
                    # the described DAG calls another DAG (its nodes are spliced in under a prefixed id)
                    refused = gen.chance(draw, 0.3) and all(x["k"] == "call" for x in P["body"])
                    if refused:
                        # fault at a point: the description is refused INSIDE the expansion of the nested DAG (an
                        # activation flag on a nested DAG one of whose nodes already has one: documented RuntimeError)
                        P["body"][0]["active"] = ["c", True]
                        op_b["refused_in_sub"] = True
                    op_b["prog"] = {"name": f"O{nb}", "params": [], "fns": {}, "ret": ["x", ["v", "w"]],
                                    "body": [{"k": "sub", "prog": P, "args": [], "active": ["c", True] if refused else None, "out": "w"}]}
                    op_b["pause"] = 0 if pause is not None else None
                ops.append(op_b)
        threads.append(ops)
    total = sum(len(o) + sum(1 for x in o if x["op"] == "build" and x.get("pause") is not None) for o in threads)
    order = [0] + draw(st.lists(st.integers(0, nthreads - 1), min_size=total, max_size=total + 3))
    return {"family": "script", "shared": shared, "private": private, "threads": threads, "order": order,
            "shared_async": draw(st.sampled_from([False, False, True])),
            "outside_behavior": draw(st.sampled_from(["error", "error", "ignore"]))}


def strategy(tier: str) -> Any:
    return cases(tier)


def run_shard(H: Harness) -> None:
    H.run_hypothesis(strategy, batch=60)


MANIFEST = {
    "engine": "threads",
    "technique": "property-based testing with scripted thread interleavings: generated per-thread operation lists and a drawn global stepping order (builds paused inside the describing function), differential against single-threaded builds and the reference evaluator; free-running stress family",
    "level_text": "Exploration of interleavings at describing-statement / call granularity: the harness pauses a description while it holds tawazi's lock and lets other threads call DAGs / decorated functions / start builds, then compares every outcome with the single-threaded reference and every DAG built under interference with the same DAG built alone. A stress family adds free-running races.",
    "level_note": "Trusted: stepping controller (a step that does not reach a stop point within 0.25 s is treated as blocked on the description lock - this only shapes the interleaving, never the verdict), dump(), reference evaluator.",
}
