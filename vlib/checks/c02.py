"""C02 - no node starts before all of its dependencies have finished; it receives exactly their values."""
from typing import Any, Dict, List

from .. import schedchecks as sc
from ..harness import CaseResult, Harness
from ..schedcase import Model

PID = "C02"
LEVEL = "exploration"
ORACLES = ("dep_order", "values", "no_internal_error")
RULE = (
    "cases = call-only DAG programs (2-9 call sites, <=3 dependencies each, drawn as positional / keyword / "
    "activation-flag dependencies, indexed uses of pair results (a few with an index the pair does not have: the node "
    "must then never be entered and the call must raise), sites flagged by ONE element of a pair whose elements are truthy / falsy independently, three resources, priorities, sequential flags, max_concurrency 1..5, sync and async "
    "flavour) x schedule: free-running with drawn sleeps, controlled (completion order chosen by a drawn choice "
    "vector inside the scheduler's own wait calls) or the exhaustive choice tree for small cases; oracle: for every "
    "node ENTER every dependency that takes part has EXITed earlier, the arguments observed inside the node equal "
    "the reference evaluation's, the returned tuple equals the reference. non-trivial = some node has >= 2 "
    "dependencies of >= 2 kinds and >= 2 nodes were inside their functions at the same time; distinct by case JSON."
    " Round 8-10 additions: calls with 10-24 positional arguments repeating their dependencies; node functions that are functools.partial objects / bound methods; shared __name__."
)
ASSUMPTIONS = [
    "node functions are the harness's constructors (value = digest of function, site, received arguments)",
    "completion order is owned at the granularity of the scheduler's wait calls; free mode adds real GIL-level races",
]
BUDGET = {"quick": {"shards": 8, "seconds": 40}, "thorough": {"shards": 16, "seconds": 420}}


def _nt(case: Dict[str, Any], M: Model, stats: List[Dict[str, Any]]) -> bool:
    multi = False
    for s in M.P["body"]:
        kinds = set()
        if s["args"] and any(a[0] == "v" for a in s["args"]):
            kinds.add("pos")
        if s["kwargs"]:
            kinds.add("kw")
        if s.get("active") is not None:
            kinds.add("flag")
        if len(M.deps[s["site"]]) >= 2 and len(kinds) >= 2:
            multi = True
    return multi and any(st["max_inside"] >= 2 for st in stats)


def run_case(case: Dict[str, Any]) -> CaseResult:
    return sc.evaluate(case, ORACLES, _nt)


def strategy(tier: str) -> Any:
    modes = ("ctl", "ctl", "free", "ctl-ex") if tier == "thorough" else ("ctl", "ctl", "free", "ctl-ex")
    return sc.sched_case(tier=tier, modes=modes, dep_kinds=("pos", "kw"), flags=True, seq_rate=0.15, prio=(-2, 4),
                         config_rate=0.1, profile_rate=0.25, index_rate=0.3, bad_index_rate=0.08, n_setup=4, setup_call_rate=0.3,
                         many_args_rate=0.04)


def run_shard(H: Harness) -> None:
    if H.tier == "thorough":
        sc.run_small_scope(H, (), flavours=(False, True))
    H.run_hypothesis(strategy)


MANIFEST = {
    "engine": "sched",
    "technique": "property-based testing with controlled schedules: Hypothesis-generated DAG programs and completion-order choice vectors (exhaustive choice tree for small cases), trace validity oracle + reference evaluator",
    "level_text": "Exploration of programs x configurations x completion orders. The harness decides which in-flight node finishes at every blocking point of the real scheduler, so an ordering bug (a successor released too early, a flag not treated as an edge) is held open and observed deterministically; for programs with <= 6 sites the whole completion-order tree is enumerated (bounded number of leaves). Absence only within the generated bounds.",
    "level_note": "Thorough tier additionally enumerates a complete small scope (every DAG on 4 ordered nodes x the property's own dimension - priorities / sequential subsets / failing node - with the whole completion-order tree of each). Trusted: the interposition of concurrent.futures.wait / ThreadPoolExecutor / asyncio.wait (vlib/sched.py), the reference evaluator (vlib/prog.py). Races inside a single wait call are reached only by the free-running mode.",
}
