"""C17 - AsyncDAG equals DAG, concurrent awaits are isolated, the loop stays free."""
import asyncio
import sys
import threading
import traceback
from typing import Any, Dict, List, Optional

from hypothesis import strategies as st

from .. import prog, progchecks as pc, richgen, sched
from ..harness import CaseResult, Harness
from ..prog import dec

PID = "C17"
LEVEL = "exploration"
RULE = (
    "three case families. (eq) a grammar-generated describing function built as DAG and as AsyncDAG from the same "
    "IR (debug nodes included), same arguments, each called twice on the same instance with RUN_DEBUG_NODES toggled in "
    "between: values, node-observation multisets and the setup entries recorded in .results must be equal "
    "and equal to the reference. (gather) k in 2..6 concurrent awaits (asyncio.gather) of ONE AsyncDAG with distinct "
    "argument tuples, with its setup nodes run beforehand or (half of the cases) not: each await returns the reference value for its own arguments and "
    "the pooled observation multiset is the sum of the k reference multisets. (live; the waiting node may be sequential / prioritised) AsyncDAGs whose pooled nodes are "
    "all async-thread: (i) a node blocks until a sibling coroutine of the same loop sets an event, (ii) the first node "
    "of each of k gathered executions waits on a k-party barrier, (iii) a node fails while a sibling async-thread node "
    "is still waiting for a coroutine of the loop - all can only complete if the loop keeps serving "
    "other coroutines while nodes are in flight; a stall is a violation only with the witness 'loop thread inside a "
    "blocking call below tawazi/_dag/helpers.py', otherwise inconclusive. non-trivial = gather with k >= 2 distinct "
    "argument tuples, a live case, or an eq case with >= 3 call sites and >= 2 resources."
)
ASSUMPTIONS = [
    "thread-resource nodes blocking the loop is documented behaviour and is not tested against (live cases use async-thread only)",
    "setup nodes are run before concurrent awaits (documented restriction)",
]
BUDGET = {"quick": {"shards": 8, "seconds": 40}, "thorough": {"shards": 16, "seconds": 420}}
LIVE_TIMEOUT = 15.0


def _setup_results(b: prog.Built) -> Dict[str, Any]:
    out = {}
    for nid, v in b.dag.results.items():
        xn = b.dag.exec_nodes.get(nid)
        if xn is not None and xn.setup:
            out[nid] = v
    return out


def _eq(case: Dict[str, Any], res: CaseResult) -> None:
    """Both flavours built once from the same IR, then called twice on the SAME instances: with RUN_DEBUG_NODES off
    and then on (an instance must not freeze the first call's view of the configuration)."""
    import tawazi

    P, args = case["prog"], case["argsets"][0]
    refs = {}
    for dbg in (False, True):
        rv, re_, R = pc.reference(P, args, run_debug=dbg)
        if re_ is not None:
            res.skipped = "reference-raises"
            return
        refs[dbg] = (rv, R)
    cfg = case["config"]
    built = {}
    old_dbg = tawazi.cfg.RUN_DEBUG_NODES
    try:
        for flavour in (False, True):
            try:
                built[flavour] = prog.build(P, is_async=flavour, mc=cfg.get("mc", 1))
            except BaseException as e:  # noqa: BLE001
                res.viol("error", f"building raised {type(e).__name__}: {str(e)[:300]} [{'AsyncDAG' if flavour else 'DAG'}]")
                return
        outs: Dict[Any, Any] = {}
        order = [False, True] if not case.get("debug_first") else [True, False]
        for rnd, dbg in enumerate(order):
            tawazi.cfg.RUN_DEBUG_NODES = dbg
            ref_val, R = refs[dbg]
            for flavour in (False, True):
                b = built[flavour]
                tag = f" [{'AsyncDAG' if flavour else 'DAG'} mc={cfg.get('mc')} call {rnd + 1} on the same instance, RUN_DEBUG_NODES={dbg}]"
                ex = sched.Exec("free", sleeps=cfg.get("sleeps"))
                a = [dec(x) for x in args]
                try:
                    with ex:
                        val = asyncio.run(b.dag(*a)) if flavour else b.dag(*a)
                except BaseException as e:  # noqa: BLE001
                    if isinstance(e, KeyboardInterrupt):
                        raise
                    res.viol("error", f"raised {type(e).__name__}: {str(e)[:300]}" + tag)
                    return
                if prog.foreign_objects(val) or val != ref_val or not pc.same_container_kind(val, ref_val):
                    res.viol("value", f"returned {val!r}, reference {ref_val!r}" + tag)
                got = pc.obs_counter(prog.observations(ex))
                # setup sites run in the first call only
                want = pc.obs_counter([o for o in R.obs if not (rnd > 0 and o[1] in outs.get("setup_sites", set()))])
                if got != want:
                    res.viol("observations", f"nodes saw {sorted((got - want).items())[:3]} instead of {sorted((want - got).items())[:3]}" + tag)
                outs[(flavour, rnd)] = (val, _setup_results(b))
            outs["setup_sites"] = {s_["site"] for s_, spec in prog.all_calls(P) if spec.get("setup")}
        for rnd in range(2):
            if outs[(False, rnd)][1] != outs[(True, rnd)][1]:
                res.viol("setup-results", f"setup results recorded by DAG {outs[(False, rnd)][1]} != AsyncDAG {outs[(True, rnd)][1]}")
    finally:
        tawazi.cfg.RUN_DEBUG_NODES = old_dbg
    res.evals = 4
    nres = {f.get("res", "thread") for f in P["fns"].values()}
    res.nontrivial = len(prog.sites_of(P)) >= 3 and len(nres) >= 2
    res.cls("eq")
    if "debug-node" in case.get("features", []):
        res.cls("eq-with-debug-nodes")


def _gather(case: Dict[str, Any], res: CaseResult) -> None:
    P = case["prog"]
    refs = []
    for a in case["argsets"]:
        v, e, R = pc.reference(P, a)
        if e is not None:
            res.skipped = "reference-raises"
            return
        refs.append((v, R))
    try:
        b = prog.build(P, is_async=True, mc=case["config"].get("mc", 2))
    except BaseException as e:  # noqa: BLE001
        res.viol("error", f"building raised {type(e).__name__}: {e}")
        return
    ex = sched.Exec("free", sleeps=case["config"].get("sleeps"))
    setup_obs: List[Any] = []

    async def main() -> Any:
        if case.get("setup_first", True):
            await b.dag.setup()
        setup_obs.extend(prog.observations(ex))
        return await asyncio.gather(*[b.dag(*[dec(x) for x in a]) for a in case["argsets"]], return_exceptions=True)

    with ex:
        vals = asyncio.run(main())
    for i, (v, (rv, _R)) in enumerate(zip(vals, refs)):
        if isinstance(v, BaseException):
            res.viol("error", f"await {i} raised {type(v).__name__}: {str(v)[:300]}")
        elif v != rv:
            res.viol("gather-value", f"await {i} with args {case['argsets'][i]} returned {v!r}, reference {rv!r}")
    got = pc.obs_counter(prog.observations(ex))
    want = pc.obs_counter(setup_obs)
    setup_keys = set(want)
    if not case.get("setup_first", True):
        # setup nodes may be computed by several of the concurrent awaits: their entries are not compared
        M_setup = {s["site"] for s, spec in prog.all_calls(P) if spec.get("setup")}
        got = pc.obs_counter([o for o in prog.observations(ex) if o[1] not in M_setup])
        for _v, R in refs:
            for o in R.obs:
                if o[1] not in M_setup:
                    want[repr(o)] += 1
    else:
        for _v, R in refs:
            for o in R.obs:
                if repr(o) not in setup_keys:
                    want[repr(o)] += 1
    if got != want and not res.violations:
        res.viol("gather-observations", f"nodes saw {sorted((got - want).items())[:4]} instead of {sorted((want - got).items())[:4]}")
    res.evals = len(case["argsets"])
    res.nontrivial = len({repr(a) for a in case["argsets"]}) >= 2
    res.cls("gather", f"gather-k{len(case['argsets'])}")
    if not case.get("setup_first", True):
        res.cls("gather-without-prior-setup")


def _live_prog(kind: str, k: int, attrs: Optional[Dict[str, Any]] = None) -> Dict[str, Any]:
    attrs = attrs or {}
    fns = {"w": {"kind": kind, "res": "async-thread", "seq": bool(attrs.get("seq_w")), "prio": attrs.get("prio_w", 0)},
           "a": {"kind": "term", "res": "async-thread", "seq": bool(attrs.get("seq_a"))},
           "m": {"kind": "term", "res": "main-thread"}}
    body = [
        {"k": "call", "fn": "w", "site": "@s0", "mark": True, "args": [["p", "p0"]], "kwargs": {}, "active": None, "unpack": None, "tags": [], "out": "v0"},
        {"k": "call", "fn": "a", "site": "@s1", "mark": True, "args": [["p", "p0"]], "kwargs": {}, "active": None, "unpack": None, "tags": [], "out": "v1"},
        {"k": "call", "fn": "m", "site": "@s2", "mark": True, "args": [["v", "v0"], ["v", "v1"]], "kwargs": {}, "active": None, "unpack": None, "tags": [], "out": "v2"},
    ]
    return {"name": "L", "params": [["p0", None]], "fns": fns, "body": body, "ret": ["T", [["v", "v0"], ["v", "v2"]]]}


def _live_fail_prog(fail_res: str, attrs: Optional[Dict[str, Any]] = None) -> Dict[str, Any]:
    """An async-thread node that waits for a sibling coroutine, next to a node that fails: after the failure the
    await must return control to the loop although the other node is still running."""
    attrs = attrs or {}
    fns = {"w": {"kind": "waitev", "res": "async-thread", "seq": bool(attrs.get("seq_w")), "prio": attrs.get("prio_w", 0)},
           "f": {"kind": "bomb", "res": fail_res}}
    body = [
        {"k": "call", "fn": "w", "site": "@s0", "mark": True, "args": [["p", "p0"]], "kwargs": {}, "active": None, "unpack": None, "tags": [], "out": "v0"},
        {"k": "call", "fn": "f", "site": "@s1", "mark": False, "args": [["c", "BOOM"]], "kwargs": {}, "active": None, "unpack": None, "tags": [], "out": "v1"},
    ]
    return {"name": "LF", "params": [["p0", None]], "fns": fns, "body": body, "ret": ["T", [["v", "v0"], ["v", "v1"]]]}


def _live(case: Dict[str, Any], res: CaseResult) -> None:
    kind, k, mc = case["live"], case["k"], case["config"].get("mc", 2)
    if kind == "fail":
        P = _live_fail_prog(case.get("fail_res", "async-thread"), case.get("attrs"))
        mc = max(mc, 2)
    else:
        P = _live_prog("waitev" if kind == "event" else "barrier", k, case.get("attrs"))
    b = prog.build(P, is_async=True, mc=mc)
    if (case.get("attrs") or {}).get("reconf"):
        # a configuration reload that only mentions priorities: everything else (the resources!) stays as declared
        b.dag.config_from_dict({"nodes": {"s0": {"priority": 1}, "s1": {"priority": 0}}})
        res.cls("live-after-config-reload")
    prog.LIVE.clear()
    prog.LIVE.update(event=threading.Event(), barrier=threading.Barrier(k), timeout=LIVE_TIMEOUT, timed_out=False)
    loop_thread = threading.get_ident()
    witness: Dict[str, Any] = {}

    def sampler() -> None:
        # called from a helper thread shortly before the probes give up
        fr = sys._current_frames().get(loop_thread)
        witness["frames"] = [f"{f.filename}:{f.lineno}:{f.name}" for f in traceback.extract_stack(fr)] if fr else []
        for t in list(ex.toks):
            try:
                inside = sum(1 for u in ex.toks if u.pool is t.pool and u.site is not None and not u.future.done())
                if t.site is None and t.pool is not None and inside >= t.pool._max_workers and t.pool._work_queue.qsize() > 0:
                    witness["shared_pool"] = (f"a node of one await cannot start because every worker of the pool it was handed to is busy with "
                                              f"nodes of other awaits ({t.pool._max_workers} worker(s), {inside} nodes inside their functions): the awaits share a pool")
                    break
            except Exception:  # noqa: BLE001
                pass

    timer = threading.Timer(LIVE_TIMEOUT * 0.8, sampler)
    timer.daemon = True
    timer.start()
    sibling_ran = []

    async def sibling() -> None:
        await asyncio.sleep(0.05 if kind == "fail" else 0.001)
        sibling_ran.append(True)
        prog.LIVE["event"].set()

    async def main() -> Any:
        n = 1 if kind in ("event", "fail") else k
        if (case.get("attrs") or {}).get("small_loop_pool"):
            # the user's loop has a one-worker default executor; every await brings its own pool, so the gathered
            # executions must not depend on it
            asyncio.get_running_loop().set_default_executor(sched.CtlPool(max_workers=1))
        coros = [b.dag(i) for i in range(n)]
        return await asyncio.gather(sibling(), *coros, return_exceptions=True)

    ex = sched.Exec("free", watchdog=False)  # the probes have their own bounded waits
    with ex:
        vals = asyncio.run(main())
    timer.cancel()
    res.evals = 1
    res.nontrivial = True
    res.cls("live-" + kind)
    if (case.get("attrs") or {}).get("seq_w"):
        res.cls("live-sequential-waiter")
    for v in vals:
        if isinstance(v, BaseException) and kind != "fail":
            res.viol("error", f"live case raised {type(v).__name__}: {str(v)[:300]}")
            return
    if kind == "fail" and not any(isinstance(v, BaseException) for v in vals):
        res.viol("failure-swallowed", "the failing node did not fail the await")
    if prog.LIVE.get("timed_out"):
        # structural witness for "the gathered awaits are not isolated": nodes of different awaits queue behind each
        # other in one pool whose workers are all inside node functions
        if witness.get("shared_pool"):
            res.viol("gathered-awaits-share-a-pool", witness["shared_pool"])
            return
        frames = witness.get("frames", [])
        below = False
        blocking = False
        seen_helpers = False
        for f in frames:
            if "/tawazi/_dag/helpers.py" in f:
                seen_helpers = True
            elif seen_helpers and ("threading.py" in f or "concurrent/futures" in f or "sched.py" in f):
                blocking = True
        below = seen_helpers and blocking
        if below:
            res.viol("loop-blocked", f"the event loop did not serve a sibling coroutine while only async-thread nodes were in flight ({kind}, k={k}); loop thread at {frames[-4:]}")
        else:
            res.inconclusive = "live-stall-without-witness"


def run_case(case: Dict[str, Any]) -> CaseResult:
    res = CaseResult()
    if case["family"] == "eq":
        _eq(case, res)
    elif case["family"] == "gather":
        _gather(case, res)
    else:
        _live(case, res)
    return res


@st.composite
def cases(draw: Any, tier: str) -> Dict[str, Any]:
    fam = draw(st.sampled_from(["eq", "eq", "gather", "gather", "live"]))
    if fam == "live":
        return {"family": "live", "live": draw(st.sampled_from(["event", "barrier", "fail"])), "k": draw(st.integers(2, 4)),
                "config": {"mc": draw(st.integers(1, 3))}, "fail_res": draw(st.sampled_from(["async-thread", "thread", "main-thread"])),
                # the waiting async-thread node may be sequential / prioritised: the loop must stay free all the same
                "attrs": {"seq_w": draw(st.booleans()), "seq_a": draw(st.booleans()), "prio_w": draw(st.integers(-2, 2)),
                          "reconf": draw(st.booleans()), "small_loop_pool": draw(st.booleans())}}
    c = draw(richgen.rich_case(depth=1, max_stmts=7, flag_w=5, debug_w=1, split_w=1, seqop_w=1))
    P = c["prog"]
    sites = prog.sites_of(P)
    cfg = {"mc": draw(st.integers(1, 4)), "mode": "free",
           "sleeps": {s: draw(st.integers(0, 4)) for s in sites if draw(st.booleans())}}
    argsets = [c.pop("args")]
    if fam == "gather":
        n_req = sum(1 for _n, d in P["params"] if d is None)
        for _ in range(draw(st.integers(1, 5))):
            a = []
            for i in range(draw(st.integers(n_req, len(P["params"])))):
                a0 = argsets[0][i] if i < len(argsets[0]) else None
                if isinstance(a0, int) and not isinstance(a0, bool) and a0 >= 1:
                    a.append(draw(st.integers(1, 6)))
                else:
                    a.append(prog.enc(draw(st.sampled_from(richgen.ANY_POOL))))
            argsets.append(a)
    c.update(family=fam, argsets=argsets, config=cfg, debug_first=draw(st.booleans()))
    if fam == "gather":
        c["setup_first"] = draw(st.booleans())
    return c


def strategy(tier: str) -> Any:
    return cases(tier)


def run_shard(H: Harness) -> None:
    H.run_hypothesis(strategy)


MANIFEST = {
    "engine": "prog",
    "technique": "property-based testing: differential DAG vs AsyncDAG on grammar-generated programs, concurrent gathered awaits with distinct arguments against the reference interpreter, loop-liveness probes (event / barrier handshakes) with structural stall witness",
    "level_text": "Exploration. Equality of flavours and isolation of gathered awaits are decided against the reference interpreter on generated programs and argument tuples; loop liveness is decided by handshakes that can only complete if the loop serves sibling coroutines while async-thread nodes are in flight (bounded wait, stall needs a structural witness).",
    "level_note": "Trusted: reference interpreter; the int-typed parameters of a program keep int values in every generated argument tuple. Liveness is bounded (15 s) and witness-based.",
}
