"""C20 - calling a DAG inside a DAG is equivalent to inlining it."""
import asyncio
from typing import Any, Dict, List, Tuple

from hypothesis import strategies as st

from .. import prog, progchecks as pc, richgen, sched
from ..harness import CaseResult, Harness
from ..prog import dec

import tawazi  # noqa: E402  (after vlib.env has put the tree under test on the path)

PID = "C20"
LEVEL = "exploration"
RULE = (
    "cases = describing functions whose statements are mostly nested DAG calls (nesting depth up to 3), inner "
    "signatures with required and defaulted parameters, calls supplying fewer than / exactly as many arguments as "
    "parameters (constants or results, possibly indexed), inner returns single / tuple / list / dict consumed by "
    "indexing, unpacking and passing on, inner and outer programs using the same function names (f0, f1, ... at every "
    "level: id capture), sibling inner DAGs, inner setup sites, operators inside inner DAGs; two configurations. "
    "oracle: outer(*args) == reference evaluation of the inlined program, node observation multiset equal, and every "
    "nested site's node id in outer.exec_nodes is '<dotted path of enclosing DAG names>.<...>' while no top-level site "
    "id contains that prefix. non-trivial = an explicit argument is supplied for a defaulted inner parameter with a "
    "value different from the default, or nesting depth >= 2, or a function name is used at two levels."
    " Round 8-10 additions: family 'shared-inner' (one inner DAG object set up / called / nested in several outer DAGs one after the other, with an uncopyable setup result); inner DAGs may hand back a required parameter; debug logging on."
)
ASSUMPTIONS = [
    "the same inner DAG object is called once per outer description; inner DAGs return node results (documented limits)",
]
ATHERIS = True  # thorough tier: 4 of the 16 shards are coverage-guided (vlib/fuzzshard.py)
BUDGET = {"quick": {"shards": 8, "seconds": 40}, "thorough": {"shards": 16, "seconds": 420}}


def _walk(P: Dict[str, Any], path: Tuple[str, ...] = ()) -> List[Tuple[Tuple[str, ...], Dict[str, Any], Dict[str, Any]]]:
    """(path of enclosing nested DAG names, statement, program) for every call site at any depth."""
    out = []
    for s in P["body"]:
        if s["k"] == "call":
            out.append((path, s, P))
        elif s["k"] == "sub":
            out.extend(_walk(s["prog"], path + (s["prog"]["name"],)))
    return out


def _explicit_nondefault(P: Dict[str, Any]) -> bool:
    for s in P["body"]:
        if s["k"] == "sub":
            for a, (_n, d) in zip(s["args"], s["prog"]["params"]):
                if d is not None and not (a[0] == "c" and dec(a[1]) == dec(d["d"])):
                    return True
            if _explicit_nondefault(s["prog"]):
                return True
    return False


def _nest_composed(case: Dict[str, Any], res: CaseResult) -> CaseResult:
    """A DAG obtained from compose() is called inside another DAG: it must behave like its inlined body too."""
    import tawazi

    from .. import composeref as cr, gen, sched
    from ..schedcase import Model

    P = case["prog"]
    M = Model({"prog": P, "mc": 2})
    vals = [dec(v) for v in case["vals"]]
    E = cr.compose_expect(P, M, case["inputs"], case["outputs"], vals, {}, single=False)
    res.cls("nest-composed")
    if E.error:
        res.skipped = "compose-rejects-" + E.error
        return res
    b = prog.build(P, mc=2)
    tag = f" [compose(inputs={case['inputs']}, outputs={case['outputs']}) nested in an outer DAG, vals={case['vals']}]"
    try:
        ins = [cr.real_alias(b, P, a) for a in case["inputs"]]
        outs = [cr.real_alias(b, P, o) for o in case["outputs"]]
        import warnings

        with warnings.catch_warnings():
            warnings.simplefilter("ignore")
            composed = b.dag.compose("CMP", ins, outs)

        def outer() -> Any:
            return composed(*vals)

        outer.__qualname__ = outer.__name__ = "OUT"
        od = tawazi.dag(outer, max_concurrency=case.get("mc", 2))
    except BaseException as e:  # noqa: BLE001
        if isinstance(e, KeyboardInterrupt):
            raise
        res.viol("error-building", f"raised {type(e).__name__}: {str(e)[:300]}" + tag)
        return res
    ex = sched.Exec("free")
    try:
        with ex:
            val = od()
    except BaseException as e:  # noqa: BLE001
        if isinstance(e, KeyboardInterrupt):
            raise
        res.viol("error-calling", f"raised {type(e).__name__}: {str(e)[:300]}" + tag)
        return res
    if val != E.value:
        res.viol("value", f"returned {val!r}, inlined reference {E.value!r}" + tag)
    got, want = pc.obs_counter(prog.observations(ex)), pc.obs_counter(E.obs)
    if got != want:
        res.viol("observations", f"nodes saw {sorted((got - want).items())[:3]} instead of {sorted((want - got).items())[:3]}" + tag)
    res.evals = 1
    res.nontrivial = len(E.needed) >= 2
    return res



def _shared_inner(case: Dict[str, Any], res: CaseResult) -> CaseResult:
    """History on ONE inner DAG object: it is set up / called plainly / nested in several outer DAGs, one after the
    other, with different ways of supplying its defaulted parameters.  Every call - of each outer DAG, right after it
    was built and again at the end, and of the inner DAG itself - computes what the inlined program computes."""
    Q = case["inner"]
    qb = prog.build(Q, mc=case.get("mc", 2))
    built: List[Any] = []  # (outer program, Built, call argument)
    pre: Dict[str, Any] = {}
    res.evals = 0

    def run(tagtxt: str, dag_: Any, P_: Dict[str, Any], args_: List[Any]) -> bool:
        R = prog.Ref(pre=dict(pre))
        try:
            want = prog.ref_run(P_, args_, R)
        except (prog.RefError, prog.MissingArg, KeyError, IndexError) as e:
            res.skipped = "reference-raises-" + type(e).__name__
            return False
        ex = sched.Exec("free")
        try:
            with ex:
                got = dag_(*args_)
        except BaseException as e:  # noqa: BLE001
            if isinstance(e, KeyboardInterrupt):
                raise
            res.viol("shared-inner-raised", f"{tagtxt} raised {type(e).__name__}: {str(e)[:300]} [history {case['steps']}]")
            return False
        res.evals += 1
        if prog.foreign_objects(got) or got != want:
            res.viol("shared-inner-value", f"{tagtxt} returned {got!r}, the inlined program gives {want!r} [history {case['steps']}]")
            return False
        for s_ in R.executed:
            spec = None
            for _pth, st_, pp in _walk(P_):
                if st_["site"] == s_:
                    spec = pp["fns"][st_["fn"]]
            if spec is not None and spec.get("setup"):
                pre[s_] = R.values[s_]
        return True

    for i, step in enumerate(case["steps"]):
        if step["op"] == "setup":
            try:
                qb.dag.setup()
            except BaseException as e:  # noqa: BLE001
                if isinstance(e, KeyboardInterrupt):
                    raise
                res.viol("shared-inner-raised", f"step {i}: inner.setup() raised {type(e).__name__}: {str(e)[:200]}")
                return res
            R0 = prog.Ref(pre=dict(pre))
            prog.ref_run(Q, [None] * sum(1 for _n, d in Q["params"] if d is None), R0)
            for s_ in R0.executed:
                if Q["fns"][[b_ for b_ in Q["body"] if b_["site"] == s_][0]["fn"]].get("setup"):
                    pre[s_] = R0.values[s_]
        elif step["op"] == "inner":
            if not run(f"step {i}: inner{tuple(step['args'])}", qb.dag, Q, [dec(a) for a in step["args"]]):
                return res
        else:
            O = {"name": f"OUT{i}", "params": [["p0", None]], "fns": {"g": {"kind": "term", "res": "thread"}}, "ret": ["x", ["v", "w"]],
                 "body": [{"k": "call", "fn": "g", "site": f"@o{i}", "mark": True, "args": [["p", "p0"]], "kwargs": {}, "active": None,
                           "unpack": None, "tags": [], "out": "v0"},
                          {"k": "sub", "prog": Q, "args": step["args"], "active": None, "out": "w"}]}
            try:
                ob = prog.build(O, mc=case.get("mc", 2), shared_subs={Q["name"]: qb})
            except BaseException as e:  # noqa: BLE001
                if isinstance(e, KeyboardInterrupt):
                    raise
                res.viol("shared-inner-raised", f"step {i}: building an outer DAG that nests inner({step['args']}) raised {type(e).__name__}: {str(e)[:300]} [history {case['steps']}]")
                return res
            built.append((O, ob, dec(step["val"]), i))
            if not run(f"step {i}: outer nesting inner({step['args']})", ob.dag, O, [dec(step["val"])]):
                return res
    for O, ob, val, i in built:
        if not run(f"at the end: the outer DAG of step {i}", ob.dag, O, [val]):
            return res
    n_out = len(built)
    res.nontrivial = n_out >= 2 and any(len(st_["args"]) >= 2 for st_ in case["steps"] if st_["op"] == "outer")
    res.cls("shared-inner", f"shared-inner-nested-{min(n_out, 3)}x")
    if any(st_["op"] == "setup" for st_ in case["steps"]):
        res.cls("shared-inner-set-up-first")
    if any(f.get("kind") == "nocopy" for f in Q["fns"].values()):
        res.cls("shared-inner-holds-uncopyable-setup-result")
    return res


def run_case(case: Dict[str, Any]) -> CaseResult:
    res = CaseResult()
    if case.get("family") == "nest-composed":
        return _nest_composed(case, res)
    if case.get("family") == "shared-inner":
        return _shared_inner(case, res)
    P, args = case["prog"], case["args"]
    refs = {dbg: pc.reference(P, args, run_debug=dbg) for dbg in (False, True)}
    for dbg in (False, True):
        if refs[dbg][1] is not None:
            res.skipped = "reference-raises-" + type(refs[dbg][1]).__name__
            return res
    res.evals = 0
    sites = _walk(P)
    b = None
    for cfg in case["configs"]:
        ref_val, _re, R = refs[bool(cfg.get("debug"))]
        val, exc, ex, b = pc.run_config(P, args, cfg)
        res.evals += 1
        ctag = f" [cfg={ {k: v for k, v in cfg.items() if k not in ('choices', 'sleeps')} } args={args}]"
        if exc is not None:
            res.viol("error-" + ("building" if ex is None else "calling"), f"raised {type(exc).__name__}: {str(exc)[:300]}" + ctag)
            break
        if prog.foreign_objects(val) or val != ref_val or not pc.same_container_kind(val, ref_val):
            res.viol("value", f"returned {val!r}, inlined reference {ref_val!r}" + ctag)
        got, want = pc.obs_counter(prog.observations(ex)), pc.obs_counter(R.obs)
        if got != want:
            res.viol("observations", f"nodes saw {sorted((got - want).items())} instead of {sorted((want - got).items())}" + ctag)
        # ids: dotted prefix of the enclosing DAG names
        for path, s, _p in sites:
            try:
                nid = b.node_id(s["site"])
            except KeyError as e:
                res.viol("id-missing", f"site {s['site']}: {e}" + ctag)
                continue
            prefix = ".".join(path) + "." if path else ""
            qual = _p["fns"][s["fn"]].get("qual", s["fn"])
            if not nid.startswith(prefix + qual) or (not path and "." in nid.replace(qual, "")):
                res.viol("id-prefix", f"site {s['site']} (function {s['fn']}, nesting {path}) has id {nid!r}" + ctag)
        ids = list(b.dag.exec_nodes)
        if len(ids) != len(set(ids)):
            res.viol("id-collision", "duplicate ids" + ctag)
        if res.violations:
            break
    if not res.violations and b is not None and case.get("compose_outputs"):
        # compose() on the OUTER DAG (which contains nested DAGs): with no inputs the composed DAG computes the named
        # top-level sites exactly as the outer DAG does (all DAG parameters have defaults here)
        Rn = refs[False][2]
        outs = case["compose_outputs"]
        ctag = f" [outer.compose([], {outs})]"
        try:
            ids_ = {s_: b.node_id(s_) for s_ in outs}
            import warnings

            with warnings.catch_warnings():
                warnings.simplefilter("ignore")
                cd = b.dag.compose("CMPOUT", [], [ids_[s_] for s_ in outs])
            with sched.Exec("free"):
                got_c = asyncio.run(cd()) if isinstance(cd, tawazi.AsyncDAG) else cd()
            want_c = tuple(None if Rn.values.get(s_) is prog.NOTRUN else Rn.values.get(s_) for s_ in outs)
            if prog.foreign_objects(got_c) or got_c != want_c:
                res.viol("compose-of-outer-value", f"returned {got_c!r}, the outer DAG computes {want_c!r} for these sites" + ctag)
        except BaseException as e:  # noqa: BLE001
            if isinstance(e, KeyboardInterrupt):
                raise
            res.viol("compose-of-outer-raised", f"raised {type(e).__name__}: {str(e)[:300]}" + ctag)
        res.cls("compose-of-a-dag-with-nested-dags")
    depth2 = "nested-2" in case.get("features", [])
    levels: Dict[str, set] = {}
    for path, s, _p in sites:
        levels.setdefault(s["fn"], set()).add(path)
    capture = any(len(v) > 1 for v in levels.values())
    nondefault = _explicit_nondefault(P)
    res.nontrivial = ("nested" in case.get("features", [])) and (nondefault or depth2 or capture)
    if nondefault:
        res.cls("explicit-nondefault-for-defaulted-param")
    if depth2:
        res.cls("depth>=2")
    if capture:
        res.cls("same-function-name-at-two-levels")
    if "nested" not in case.get("features", []):
        res.cls("no-nesting")
    res.note = {"features": case.get("features")}
    return res


@st.composite
def cases(draw: Any, tier: str) -> Dict[str, Any]:
    if draw(st.sampled_from([True] + [False] * 5)):
        from .. import gen

        P = draw(gen.flat_prog(min_sites=3, max_sites=8, max_deps=3, resources=gen.RES, dep_kinds=("pos", "kw"),
                               index_rate=0.2, prio_range=(-1, 2)))
        sites = [s["site"] for s in P["body"]]
        outs = draw(st.lists(st.sampled_from(sites), min_size=1, max_size=3, unique=True))
        anc = gen.ancestors(gen.deps_of(P))
        up = sorted({a for o in outs for a in anc[o]} - set(outs))
        ins = draw(st.lists(st.sampled_from(up), min_size=0, max_size=2, unique=True)) if up else []
        vals = []
        for name in ins:
            kind = P["fns"][[s for s in P["body"] if s["site"] == name][0]["fn"]].get("kind")
            if kind == "tup":
                vals.append(prog.enc(draw(st.sampled_from([(3, 4), ("u", 0)]))))
            elif kind == "dict":
                vals.append(prog.enc({"a": 0, "b": [1, (2, 3)]}))
            else:
                vals.append(prog.enc(draw(st.sampled_from([0, 1, "w", None]))))
        return {"family": "nest-composed", "prog": P, "inputs": ins, "outputs": outs, "vals": vals, "mc": draw(st.integers(1, 3))}
    if draw(st.sampled_from([True] + [False] * 6)):
        # history on one inner DAG object (see _shared_inner)
        from .. import gen

        Q = draw(gen.flat_prog(min_sites=2, max_sites=5, max_deps=2, resources=gen.RES, dep_kinds=("pos", "kw"), n_params=3,
                               n_setup=draw(st.integers(0, 1)), name="INNER", prio_range=(-1, 2)))
        Q["params"] = [["p0", None], ["p1", {"d": draw(st.sampled_from([10, "d1"]))}], ["p2", {"d": draw(st.sampled_from([100, "d2", None]))}]]
        plain = [b_ for b_ in Q["body"] if not Q["fns"][b_["fn"]].get("setup")]
        plain[0]["args"] = plain[0]["args"] + [["p", "p0"], ["p", "p1"]]
        plain[-1]["kwargs"] = dict(plain[-1]["kwargs"], kz=["p", "p2"])
        for f in Q["fns"].values():
            if f.get("setup") and draw(st.booleans()):
                f["kind"] = "nocopy"  # the setup result can be neither deep-copied nor pickled
        steps: List[Dict[str, Any]] = []
        if any(f.get("setup") for f in Q["fns"].values()) and draw(st.booleans()):
            steps.append({"op": "setup"})
        for _ in range(draw(st.integers(2, 4))):
            if draw(st.sampled_from([True, True, True, False])):
                k = draw(st.integers(1, 3))
                args_ = [draw(st.sampled_from([["v", "v0"], ["p", "p0"], ["c", 3], ["c", "k"], ["c", None]])) for _ in range(k)]
                steps.append({"op": "outer", "args": args_, "val": draw(st.sampled_from([0, 1, "a"]))})
            else:
                steps.append({"op": "inner", "args": [draw(st.sampled_from([0, 2, "b"])) for _ in range(draw(st.integers(1, 3)))]})
        return {"family": "shared-inner", "inner": Q, "steps": steps, "mc": draw(st.integers(1, 3))}
    c = draw(richgen.rich_case(depth=3, max_stmts=6, flag_w=6, sub_w=8, seqop_w=1, debug_w=1))
    c["configs"] = draw(pc.configs(2, sites=prog.sites_of(c["prog"])))
    P_ = c["prog"]
    top = [s["site"] for s in P_["body"] if s["k"] == "call" and not P_["fns"][s["fn"]].get("debug") and not P_["fns"][s["fn"]].get("setup")
           and s.get("unpack") is None and not P_["fns"][s["fn"]].get("unpack")]
    if top and all(d is not None for _n, d in P_["params"]) and len(c["args"]) == 0 and "nested" in c.get("features", []):
        c["compose_outputs"] = draw(st.lists(st.sampled_from(top), min_size=1, max_size=2, unique=True))
    return c


def strategy(tier: str) -> Any:
    return cases(tier)


def run_shard(H: Harness) -> None:
    H.run_hypothesis(strategy)


MANIFEST = {
    "engine": "prog",
    "technique": "property-based testing + coverage-guided fuzzing (thorough tier: atheris/libFuzzer drives the same Hypothesis strategy with tawazi instrumented): grammar-generated nesting trees of DAGs, differential against the reference interpreter of the inlined program, id-prefix validity predicate",
    "level_text": "Exploration over nesting structures (depth <= 3) x inner signatures x argument-supply forms x return shapes x outer uses. The reference interpreter evaluates the nested program by inlining, so a mis-bound argument, a default that wins over a supplied value, a wrongly re-prefixed reference or an id capture is a value / observation difference.",
    "level_note": "Trusted: reference interpreter; node ids resolved through get_nodes_by_tag.",
}
