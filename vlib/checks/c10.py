"""C10 - twz_active runs a node iff the supplied value is truthy; otherwise None."""
from typing import Any, Dict

from hypothesis import strategies as st

from .. import prog, progchecks as pc, richgen
from ..harness import CaseResult, Harness

PID = "C10"
LEVEL = "exploration"
RULE = (
    "cases = describing functions from the typed grammar biased so that about half of the calls / nested-DAG calls "
    "carry twz_active, the flag being a Python constant (True False 0 1 '' 'x' None), a DAG argument, a node result, "
    "result[key] / chained keys / an unpacked element (also two calls flagged by two different parts of one value), or an and_/or_/not_/operator expression; flag values (incl. Mask objects whose bool() and len() disagree) come from "
    "(programs may contain debug nodes, run with RUN_DEBUG_NODES on and off) a truthy/falsy pool (0 1 2 '' 'x' None True False () (0,) (1,2) {'a':0} {} [] [0]); each program is run with two "
    "argument tuples under two configurations. oracle: value == reference (deactivated call -> None, dependents get "
    "None, deactivated nested DAG -> all outputs None) and the multiset of node observations == reference (a "
    "deactivated node / every non-setup node of a deactivated nested DAG is absent). non-trivial = the program has a "
    "flag that is an indexed / unpacked value or sits on a nested DAG call, and some flagged site was actually "
    "skipped in one of the runs."
    " Round 9 additions: falsy-but-indexable flag containers (prog.Hollow); three levels of nesting with a parameter handed back."
)
ASSUMPTIONS = [
    "a flagged call's result is never indexed / unpacked (None[0] raises in plain Python too) - by construction",
    "a nested DAG called with twz_active contains no flagged calls itself (documented RuntimeError) and does not index its own results",
]
ATHERIS = True  # thorough tier: 4 of the 16 shards are coverage-guided (vlib/fuzzshard.py)
BUDGET = {"quick": {"shards": 8, "seconds": 40}, "thorough": {"shards": 16, "seconds": 420}}


def _flat_selection(case: Dict[str, Any]) -> CaseResult:
    """Flags next to executor selections: a call-only program with activation flags, run through
    executor(target / exclude / root) selections - a selection may cut the flag's producer away, the flag then reads
    as None and the flagged node is skipped.  Same engine and oracle as C03 (entries and values against the reference
    evaluation of the selection)."""
    from . import c03

    inner = c03.run_case(case["inner"])
    res = CaseResult()
    res.evals = inner.evals
    for v in inner.violations:
        res.viol("selection-" + v.bucket, v.msg, v.key, v.detail)
    flagged = any(s.get("active") is not None for s in case["inner"]["prog"]["body"])
    res.nontrivial = bool(inner.nontrivial and flagged)
    res.cls("flat-program-with-selections")
    if flagged:
        res.cls("flat-flagged")
    return res


def run_case(case: Dict[str, Any]) -> CaseResult:
    if case.get("family") == "flat-sel":
        return _flat_selection(case)
    res = CaseResult()
    P = case["prog"]
    res.evals = 0
    skipped_any = False
    ran_any = False
    for args in case["argsets"]:
        refs = {dbg: pc.reference(P, args, run_debug=dbg) for dbg in (False, True)}
        ref_val, ref_exc, R = refs[False]
        if ref_exc is not None or refs[True][1] is not None:
            res.cls("reference-raises")
            continue
        skipped_any = skipped_any or bool(R.skipped)
        ran_any = True
        for cfg in case["configs"]:
            rv, _e, Rd = refs[bool(cfg.get("debug"))]
            pc.compare(res, P, args, cfg, rv, Rd)
            res.evals += 1
            if res.violations:
                return res
    if not ran_any:
        res.skipped = "reference-raises"
        return res
    feats = set(case.get("features", []))
    res.nontrivial = bool(feats & {"flag-indexed", "flag-on-sub"}) and skipped_any
    res.cls(*["feat:" + f for f in feats if f.startswith("flag")])
    if skipped_any:
        res.cls("some-site-deactivated")
    res.note = {"features": sorted(feats)}
    return res


@st.composite
def cases(draw: Any, tier: str) -> Dict[str, Any]:
    c = draw(richgen.rich_case(depth=2, max_stmts=7, flag_w=1, sub_w=3, debug_w=1, split_w=2))
    P = c["prog"]
    n_req = sum(1 for _n, d in P["params"] if d is None)
    second = []
    for i in range(draw(st.integers(n_req, len(P["params"])))):
        a0 = c["args"][i] if i < len(c["args"]) else None
        if isinstance(a0, int) and not isinstance(a0, bool) and a0 >= 1 and i < len(c["args"]):
            second.append(draw(st.integers(1, 6)))
        else:
            second.append(prog.enc(draw(st.sampled_from(richgen.ANY_POOL))))
    # keep int-typed parameters int in the second tuple (the generator typed them from the first one)
    c["argsets"] = [c.pop("args"), second]
    c["configs"] = draw(pc.configs(2, sites=prog.sites_of(P)))
    return c


@st.composite
def _flat_sel_cases(draw: Any, tier: str) -> Dict[str, Any]:
    from .. import gen, schedchecks as sc

    P = draw(gen.flat_prog(min_sites=3, max_sites=8, max_deps=3, resources=gen.RES, prio_range=(-2, 3),
                           dep_kinds=("pos", "kw", "flag"), mark_roots=False, split_rate=0.25))
    for s in P["body"]:
        a = s.get("active")
        if a is not None and a[0] == "v":
            f = P["fns"][[x for x in P["body"] if x["out"] == a[1]][0]["fn"]]
            if not f.get("setup") and f.get("kind") not in ("tup", "dict") and not f.get("pair"):
                f["kind"], f["val"] = "const", draw(st.sampled_from([0, 1, "", "x", None, True, False]))
    calls = []
    for _ in range(draw(st.integers(1, 2))):
        calls.append({"mode": "free", "sleeps": {}, "sel": draw(sc.selection_strategy(P)), "debug": False})
    return {"family": "flat-sel", "inner": {"prog": P, "mc": draw(st.integers(1, 3)), "async": draw(st.booleans()), "calls": calls}}


def strategy(tier: str) -> Any:
    return st.one_of(cases(tier), cases(tier), cases(tier), cases(tier), cases(tier), _flat_sel_cases(tier))


def run_shard(H: Harness) -> None:
    H.run_hypothesis(strategy)


MANIFEST = {
    "engine": "prog",
    "technique": "property-based testing + coverage-guided fuzzing (thorough tier: atheris/libFuzzer drives the same Hypothesis strategy with tawazi instrumented): grammar-generated programs with every form of activation flag, differential against the reference interpreter (values + node observation multiset)",
    "level_text": "Exploration over programs x flag forms x runtime flag values x configurations; the observation multiset shows exactly which nodes ran and what they received, so a flag evaluated on the wrong value, an ignored constant, or a deactivated nested DAG that still runs a node is a concrete counterexample.",
    "level_note": "Trusted: reference interpreter; the fragment restrictions listed in assumptions.",
}
