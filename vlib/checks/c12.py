"""C12 - target / exclude / root selection executes exactly the documented closure."""
import itertools
from collections import Counter
from typing import Any, Dict, List, Optional, Set, Tuple

from hypothesis import strategies as st

from .. import gen, prog, sched
from ..harness import CaseResult, Harness
from ..schedcase import Model

PID = "C12"
LEVEL = "exploration"
RULE = (
    "cases = flag-free, debug-free call-only DAG programs (3-8 sites, reused functions, indexed uses of tuple results, 0-2 setup sites optionally "
    "run beforehand, extra group tags, a tag equal to another node's id) x (R, X, T) each None / empty / a subset, X "
    "inside the part selected by R, R among true roots or (error class) containing a non-root, every element given "
    "through an alias form drawn among node reference, decorated-function reference, id, unique tag, group tag, "
    "shadowing tag, unknown alias; for programs with <= 4 sites the case enumerates ALL (R, X, T) triples. oracle: "
    "Exec = (R and descendants, or all) minus (X and descendants) restricted to (T and ancestors, or all); function "
    "nodes of executor.graph == Exec; node-function entries == Exec minus already computed setup sites; returned "
    "tuple == reference with exactly Exec executed (None elsewhere, real values for already computed nodes); a target "
    "removed by the exclusion, a non-root in R or an unknown alias raise ValueError and nothing runs; a target cut "
    "away by R may either raise ValueError or yield the closure. non-trivial = >= 2 of R/X/T given with Exec neither "
    "empty nor everything, or an error class."
    " Round 9-10 additions: calls with 10-24 arguments; functions sharing __name__ with different __qualname__; debug logging on with a DEBUG sink."
)
ASSUMPTIONS = [
    "alias resolution as documented: ExecNode reference, tag (wins over an equal id), id",
    "excluded nodes lie inside the part selected by R (the property's precondition)",
]
BUDGET = {"quick": {"shards": 8, "seconds": 40}, "thorough": {"shards": 16, "seconds": 420}}


class Resolver:
    def __init__(self, P: Dict[str, Any], b: prog.Built) -> None:
        self.P, self.b = P, b
        self.ids = b.node_ids()
        self.site_of_id = {v: k for k, v in self.ids.items()}
        self.tags: Dict[str, List[str]] = {}
        for s in (x for x in P["body"] if x["k"] == "call"):
            for t in [s["site"].lstrip(prog.MARK)] + list(s.get("tags") or []):
                self.tags.setdefault(t, []).append(s["site"])

    def model(self, alias: Dict[str, Any]) -> Optional[List[str]]:
        """Sites the alias denotes according to the documentation, None = unknown alias (ValueError)."""
        form = alias["form"]
        if form == "node":
            return [alias["site"]]
        if form == "fn":
            fn = [s for s in self.P["body"] if s.get("site") == alias["site"]][0]["fn"]
            first = [s["site"] for s in self.P["body"] if s.get("fn") == fn][0]
            return [first]
        if form == "id":
            name = self.ids[alias["site"]]
        elif form == "tag":
            name = alias["site"].lstrip(prog.MARK)
        else:  # literal string: group tag, shadowing tag, unknown
            name = alias["name"]
        if name in self.tags:
            return list(self.tags[name])
        if name in self.site_of_id:
            return [self.site_of_id[name]]
        return None

    def real(self, alias: Dict[str, Any]) -> Any:
        form = alias["form"]
        if form == "node":
            return self.b.dag.get_node_by_id(self.ids[alias["site"]])
        if form == "fn":
            fn = [s for s in self.P["body"] if s.get("site") == alias["site"]][0]["fn"]
            return self.b.xns[fn]
        if form == "id":
            return self.ids[alias["site"]]
        if form == "tag":
            return alias["site"].lstrip(prog.MARK)
        return alias["name"]


def _now(r: Any) -> Any:
    """AsyncDAG flavour: executors and setup() return coroutines."""
    import asyncio

    return asyncio.run(r) if asyncio.iscoroutine(r) else r


def closure(M: Model, R: Optional[List[str]], X: Optional[List[str]], T: Optional[List[str]]) -> Tuple[Set[str], Set[str]]:
    """(Exec, part selected by R)."""
    cur = set(M.sites)
    if R is not None:
        cur = set()
        for r in R:
            cur |= {r} | M.desc[r]
    rpart = set(cur)
    if X is not None:
        for x in X:
            cur -= {x} | M.desc[x]
    if T is not None:
        keep: Set[str] = set()
        for t in T:
            keep |= {t} | M.anc[t]
        cur &= keep
    return cur, rpart


def one_selection(res: CaseResult, P: Dict[str, Any], M: Model, b: prog.Built, rz: Resolver, sel: Dict[str, Any],
                  pre_setup: bool, mc: int, tag: str) -> Optional[str]:
    """Create and run one executor.  Returns the class of the selection."""
    lists: Dict[str, Optional[List[str]]] = {}
    unknown = False
    for k in "RXT":
        if sel.get(k) is None:
            lists[k] = None
            continue
        acc: List[str] = []
        for a in sel[k]:
            m = rz.model(a)
            if m is None:
                unknown = True
            else:
                acc.extend(m)
        lists[k] = acc
    roots = set(gen.true_roots(P))
    expect_error = None
    either = False
    if unknown:
        expect_error = "unknown-alias"
    elif lists["R"] is not None and not set(lists["R"]) <= roots:
        expect_error = "non-root"
    else:
        ex_set, rpart = closure(M, lists["R"], lists["X"], lists["T"])
        if lists["X"] is not None and not set(lists["X"]) <= rpart:
            return "outside-precondition"
        after_x, _ = closure(M, lists["R"], lists["X"], None)
        if lists["T"] is not None:
            tset = set(lists["T"])
            if not tset <= rpart:
                either = True  # a target cut away by R: unspecified
            elif not tset <= after_x:
                expect_error = "target-excluded"
    kw = {}
    for k, name in (("T", "target_nodes"), ("X", "exclude_nodes"), ("R", "root_nodes")):
        if sel.get(k) is not None:
            kw[name] = [rz.real(a) for a in sel[k]]
    exr = None
    err: Optional[BaseException] = None
    try:
        exr = b.dag.executor(**kw)
    except ValueError as e:
        err = e
    except BaseException as e:  # noqa: BLE001
        if isinstance(e, KeyboardInterrupt):
            raise
        res.viol("wrong-exception", f"executor(...) raised {type(e).__name__}: {str(e)[:200]} (expected {'ValueError' if expect_error else 'no error'})" + tag)
        return expect_error or "error"
    if expect_error:
        if err is None:
            # the error may also surface when the executor is called; nothing may run
            ex = sched.Exec("free")
            try:
                with ex:
                    _now(exr())
                res.viol("error-not-raised", f"selection of class {expect_error} was accepted and ran {sorted(e['site'] for e in ex.events if e['k'] == 'ENTER')}" + tag)
            except ValueError:
                if any(e["k"] == "ENTER" for e in ex.events):
                    res.viol("ran-before-error", f"nodes ran although the selection is rejected ({expect_error})" + tag)
            except BaseException as e:  # noqa: BLE001
                res.viol("wrong-exception", f"calling raised {type(e).__name__}: {str(e)[:200]} (expected ValueError: {expect_error})" + tag)
        return expect_error
    if err is not None:
        if either:
            return "target-cut-by-R"
        res.viol("valid-selection-rejected", f"ValueError for a valid selection: {str(err)[:200]}" + tag)
        return "valid"
    if either:
        return "target-cut-by-R"
    # graph nodes
    fn_nodes = {rz.site_of_id[n] for n in exr.graph.nodes if n in rz.site_of_id}
    pre = set(M.done_setup)  # setup sites this DAG instance has already computed
    want_graph = ex_set
    if fn_nodes != want_graph:
        res.viol("graph-nodes", f"executor.graph has function nodes {sorted(fn_nodes)}, documented closure {sorted(want_graph)}" + tag)
    # run
    # an independent nested DAG at the end of the describing function (its output is unused): its nodes are below no
    # root and needed by no target - they run only when neither roots nor targets restrict the selection
    nested_sites = [s_ for st_ in P["body"] if st_["k"] == "sub" for s_ in prog.sites_of(st_["prog"])]
    run_nested = lists["R"] is None and lists["T"] is None
    R_ = prog.Ref(selected=(ex_set | set(nested_sites)) if run_nested else ex_set, pre={s: M.pre_values[s] for s in pre})
    ref_val = prog.ref_run(P, [], R_)
    ex = sched.Exec("free")
    try:
        with ex:
            val = _now(exr())
    except BaseException as e:  # noqa: BLE001
        if isinstance(e, KeyboardInterrupt):
            raise
        res.viol("run-error", f"running the executor raised {type(e).__name__}: {str(e)[:200]}" + tag)
        return "valid"
    got = Counter(M.site_of_key.get(e["site"], e["site"]) for e in ex.events if e["k"] == "ENTER")
    want = Counter(R_.executed)
    if got != want:
        res.viol("entered", f"entered {sorted(got.items())}, closure minus computed setup {sorted(want.items())}" + tag)
    if val != ref_val:
        res.viol("value", f"returned {val!r}, reference {ref_val!r}" + tag)
    M.done_setup |= {s for s in R_.executed if s in M.spec and M.spec[s].get("setup")}
    return "valid-nested" if (0 < len(ex_set) < len(M.sites)) else "valid-trivial"


def run_case(case: Dict[str, Any]) -> CaseResult:
    from ..env import process_env

    # environment axis: tawazi's logging on with a sink at DEBUG level while selecting and running
    with process_env(log_debug=bool(case.get("log_debug"))):
        res = _run_case(case)
    if case.get("log_debug"):
        res.cls("debug-logging-on")
    return res


def _run_case(case: Dict[str, Any]) -> CaseResult:
    res = CaseResult()
    P = case["prog"]
    M = Model({"prog": P, "mc": case.get("mc", 2)})
    classes: List[str] = []
    res.evals = 0

    M.done_setup = set()  # type: ignore[attr-defined]

    def fresh() -> Tuple[prog.Built, Resolver]:
        b = prog.build(P, mc=case.get("mc", 2), is_async=bool(case.get("async")))
        if case.get("pre_setup"):
            _now(b.dag.setup())
            M.done_setup = {s for s in M.sites if M.spec[s].get("setup")}  # type: ignore[attr-defined]
        return b, Resolver(P, b)

    # values of setup sites (deterministic): reference run of the whole program
    R0 = prog.Ref()
    prog.ref_run(P, [], R0)
    M.pre_values = {s: R0.values[s] for s in M.sites}  # type: ignore[attr-defined]
    b, rz = fresh()
    if case.get("exhaustive"):
        sites = M.sites
        roots = gen.true_roots(P)

        def subsets(xs: List[str]) -> List[Optional[List[str]]]:
            out: List[Optional[List[str]]] = [None]
            for n in range(len(xs) + 1):
                out.extend(list(c) for c in itertools.combinations(xs, n))
            return out

        for Rs in subsets(roots):
            for Xs in subsets(sites):
                for Ts in subsets(sites):
                    sel = {k: (None if v is None else [{"site": s, "form": "id"} for s in v]) for k, v in (("R", Rs), ("X", Xs), ("T", Ts))}
                    c = one_selection(res, P, M, b, rz, sel, bool(case.get("pre_setup")), case.get("mc", 2), f" [R={Rs} X={Xs} T={Ts}]")
                    if c != "outside-precondition":
                        res.evals += 1
                        classes.append(c or "valid")
                    if res.violations:
                        return res
        res.cls("exhaustive-triples")
        res.nontrivial = True
    else:
        c = one_selection(res, P, M, b, rz, case["sel"], bool(case.get("pre_setup")), case.get("mc", 2), f" [sel={case['sel']}]")
        res.evals = 1
        if c == "outside-precondition":
            res.skipped = "exclude-outside-root-part"
            return res
        classes.append(c or "valid")
        given = sum(1 for k in "RXT" if case["sel"].get(k) is not None)
        res.nontrivial = (given >= 2 and c == "valid-nested") or c in ("unknown-alias", "non-root", "target-excluded")
    for c, n in Counter(classes).items():
        res.classes.extend([c] * (1 if not case.get("exhaustive") else 1))
    forms = {a["form"] for k in "RXT" for a in (case.get("sel", {}).get(k) or [])} if not case.get("exhaustive") else set()
    res.cls(*["alias:" + f for f in forms])
    if case.get("pre_setup"):
        res.cls("setup-run-before")
    res.cls("async" if case.get("async") else "sync")
    if case.get("nested_extra"):
        res.cls("nested-dag-with-same-function-names")
    res.note = {"classes": dict(Counter(classes))}
    return res


@st.composite
def cases(draw: Any, tier: str) -> Dict[str, Any]:
    exhaustive = draw(st.integers(0, 11)) == 0
    P = draw(gen.flat_prog(min_sites=3, max_sites=4 if exhaustive else 8, max_deps=3, resources=gen.RES, reuse=not exhaustive,
                           n_setup=draw(st.integers(0, 2)), mark_roots=False, prio_range=(-1, 2),
                           index_rate=0.3, dep_kinds=("pos", "kw"), short_name_rate=0.2, ret_index_rate=0.4,
                           many_args_rate=0.0 if exhaustive else 0.04, same_name_rate=0.3))
    sites = [s["site"] for s in P["body"]]
    case: Dict[str, Any] = {"prog": P, "mc": draw(st.integers(1, 3)), "pre_setup": draw(st.booleans()),
                            "async": draw(st.sampled_from([False, False, True]))}
    if not exhaustive and draw(st.integers(0, 7)) == 0:
        case["log_debug"] = True
    if exhaustive:
        case["exhaustive"] = True
        return case
    # extra tags: a group tag on 2-3 sites, a shadowing tag (== the id of another node, ids of first uses == fn name)
    if draw(st.booleans()):
        for s in draw(st.lists(st.sampled_from(P["body"]), min_size=2, max_size=3, unique_by=lambda x: x["site"])):
            s["tags"] = list(s.get("tags") or []) + ["g1"]
    shadow = None
    if draw(st.integers(0, 2)) == 0 and len(sites) >= 2:
        a, bsite = draw(st.lists(st.sampled_from(P["body"]), min_size=2, max_size=2, unique_by=lambda x: x["site"]))
        shadow = P["fns"][bsite["fn"]].get("qual", bsite["fn"])  # id of the first use of that function
        a["tags"] = list(a.get("tags") or []) + [shadow]
    deps = gen.deps_of(P)
    desc = gen.descendants(deps)
    roots = gen.true_roots(P)
    first_use = {}
    for s in P["body"]:
        first_use.setdefault(s["fn"], s["site"])

    def alias(site: str) -> Dict[str, Any]:
        forms = ["node", "id", "tag"]
        st_ = [s for s in P["body"] if s["site"] == site][0]
        if first_use[st_["fn"]] == site:
            forms.append("fn")
        return {"site": site, "form": draw(st.sampled_from(forms))}

    def special() -> Optional[Dict[str, Any]]:
        k = draw(st.integers(0, 9))
        if k == 0:
            return {"form": "lit", "name": "nope"}
        if k == 1 and any("g1" in (s.get("tags") or []) for s in P["body"]):
            return {"form": "lit", "name": "g1"}
        if k == 2 and shadow is not None:
            return {"form": "lit", "name": shadow}
        if k == 3:
            # a proper substring of an existing tag / id is not an alias of anything (unless it happens to be one)
            s0 = draw(st.sampled_from(P["body"]))
            full = draw(st.sampled_from([s0["site"].lstrip(prog.MARK), P["fns"][s0["fn"]].get("qual", s0["fn"])]))
            if len(full) >= 2:
                return {"form": "lit", "name": draw(st.sampled_from([full[:-1], full[1:], full[:1]]))}
        return None

    sel: Dict[str, Any] = {"R": None, "X": None, "T": None}
    which = draw(st.sampled_from(["T", "X", "R", "TX", "RT", "RX", "RXT", "RXT"]))
    cur = set(sites)
    if "R" in which:
        pool = roots if (roots and draw(st.integers(0, 7)) > 0) else sites  # rarely: possibly a non-root
        rs = draw(st.lists(st.sampled_from(pool), min_size=0, max_size=len(pool), unique=True))
        sel["R"] = [alias(s) for s in rs]
        cur = set()
        for r in rs:
            cur |= {r} | desc[r]
    if "X" in which:
        pool = sorted(cur) or sites
        xs = draw(st.lists(st.sampled_from(pool), min_size=0, max_size=max(1, len(pool) // 2), unique=True))
        sel["X"] = [alias(s) for s in xs]
        for x in xs:
            cur -= {x} | desc[x]
    if "T" in which:
        pool = (sorted(cur) or sites) if draw(st.integers(0, 5)) > 0 else sites  # rarely: a target that was removed
        ts = draw(st.lists(st.sampled_from(pool), min_size=0, max_size=len(pool), unique=True))
        sel["T"] = [alias(s) for s in ts]
    sp = special()
    if sp is not None:
        k = draw(st.sampled_from([k for k in "RXT" if sel[k] is not None]))
        if not (k == "R" and sp["name"] != "nope"):
            sel[k].append(sp)
    case["sel"] = sel
    if draw(st.sampled_from([True, False, False, False])):
        # a DAG called inside the describing function that uses functions of the SAME NAMES as the outer level: its
        # nodes have ids like "Q.<name>", which only look like the outer ids
        names = [f for f, sp in P["fns"].items() if not sp.get("setup") and not sp.get("debug")][:3]
        if names:
            qf = {f: {"kind": "term", "res": P["fns"][f].get("res", "thread"), **({"qual": P["fns"][f]["qual"]} if P["fns"][f].get("qual") else {})} for f in names}
            qb = []
            for j, f in enumerate(names):
                qb.append({"k": "call", "fn": f, "site": gen.site(50 + j), "mark": True, "args": [["v", f"w{j - 1}"]] if j else [],
                           "kwargs": {}, "active": None, "unpack": None, "tags": [], "out": f"w{j}"})
            Q = {"name": "Q", "params": [], "fns": qf, "body": qb, "ret": ["x", ["v", f"w{len(names) - 1}"]]}
            P["body"].append({"k": "sub", "prog": Q, "args": [], "active": None, "out": "wq"})
            case["nested_extra"] = True
    return case


def strategy(tier: str) -> Any:
    return cases(tier)


def run_shard(H: Harness) -> None:
    H.run_hypothesis(strategy)


MANIFEST = {
    "engine": "prog",
    "technique": "property-based testing: generated DAG shapes and (R, X, T) selections through every alias form, closed-form set-algebra oracle; exhaustive enumeration of all triples for small shapes",
    "level_text": "Exploration with an independent oracle: the documented closure is computed by plain set algebra over the program's dependency relation and compared with the executor's graph, the nodes that actually enter, and the returned values; every (R, X, T) triple is enumerated for shapes with <= 4 sites.",
    "level_note": "Trusted: the closure definition in vlib/checks/c12.py (closure) and the reference evaluator. Selections whose excluded nodes lie outside the R-part are outside the property's precondition and skipped (counted).",
}
