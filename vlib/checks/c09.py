"""C09 - every execution terminates, whatever order nodes finish in."""
from typing import Any, Dict, List

from .. import schedchecks as sc
from ..harness import CaseResult, Harness
from ..schedcase import Model

PID = "C09"
LEVEL = "fault_enumeration"
ORACLES = ("termination",)
RULE = (
    "cases = call-only DAG programs (2-9 sites) with flags (deactivated nodes), sequential nodes, three resources, "
    "max_concurrency 1..4 (incl. 1 with sequential nodes), 0-2 injected failing nodes, both flavours, executor "
    "selections, 0-2 setup and 0-2 debug sites (RUN_DEBUG_NODES on or off), one case in five is dag.setup(target_nodes=...) "
    "instead of a call; schedules: controlled, exhaustive choice tree, free. oracle: the call returns or raises; a wait on an "
    "empty future set with FIRST_COMPLETED (blocks forever) is a hang; no progress for 8 s with the scheduler inside "
    "tawazi and nothing in flight (or nodes in flight that it never waits for) is a hang with structural witness - a "
    "bare timeout is only 'inconclusive'; blocking waits <= 2*pooled+2; on normal return every selected active site "
    "ran. non-trivial = >= 2 pooled nodes and >= 1 of {failing, deactivated, sequential, mixed resources}."
    " Round 8-10 additions: very wide cases (33-48 independent pooled nodes) with the blocked-before-entry witness; one setup function used at two call sites; environment axes."
)
ASSUMPTIONS = [
    "bounded liveness: 'terminates' = returns within a bounded number of scheduler wait steps under every generated completion order",
    "hang verdicts need a structural witness sampled from sys._current_frames(); time alone never decides",
]
BUDGET = {"quick": {"shards": 8, "seconds": 40}, "thorough": {"shards": 16, "seconds": 420}}


def _nt(case: Dict[str, Any], M: Model, stats: List[Dict[str, Any]]) -> bool:
    pooled = [s for s in M.sites if M.pooled(s)]
    feats = bool(case.get("failing")) or any(x.get("active") is not None for x in M.P["body"]) or any(M.seq.values()) \
        or len({M.res[s] for s in pooled}) >= 2
    return len(pooled) >= 2 and feats


def _runtime_nested(case: Dict[str, Any]) -> CaseResult:
    """DAG calls made at RUN time from inside node functions: k nodes of an outer DAG (all in flight together - they
    meet at a barrier) each call an inner DAG.  Every one of these calls is a DAG call on a finite DAG and has to
    return.  A stall is a violation only with a structural witness: in three samples one second apart every outer
    node's thread is inside tawazi's scheduler (the inner call) and no inner node has been entered since."""
    import sys
    import threading
    import time
    import traceback

    import tawazi
    from tawazi import Resource

    res = CaseResult()
    k, mc, res_name = case["k"], case["mc"], case["res"]
    entered: List[int] = []
    lock = threading.Lock()
    barrier = threading.Barrier(k)
    threads: Dict[int, int] = {}

    def leaf(x: Any) -> Any:
        with lock:
            entered.append(1)
        return ("leaf", x)

    xleaf = tawazi.xn(leaf)
    xleaf2 = tawazi.xn(lambda a, b: ("sum", a, b))

    @tawazi.dag(max_concurrency=case["inner_mc"])
    def inner(x: Any) -> Any:
        return xleaf2(xleaf(x), xleaf(x))

    def caller(i: int) -> Any:
        threads[i] = threading.get_ident()
        try:
            barrier.wait(10)
        except threading.BrokenBarrierError:
            pass
        return ("outer", i, inner(i))

    xcaller = tawazi.xn(caller, resource=Resource(res_name))

    def describe() -> Any:
        return tuple(xcaller(i) for i in range(k))

    outer = tawazi.dag(describe, max_concurrency=mc, is_async=bool(case.get("async")))
    out: Dict[str, Any] = {}

    def go() -> None:
        import asyncio

        try:
            out["value"] = asyncio.run(outer()) if case.get("async") else outer()
        except BaseException as e:  # noqa: BLE001
            out["exc"] = e

    th = threading.Thread(target=go, daemon=True)
    th.start()
    th.join(20)
    res.evals = 1
    res.nontrivial = True
    res.cls("runtime-nested-dag-calls")
    if th.is_alive():
        stuck = 0
        for _ in range(3):
            before = len(entered)
            frames = sys._current_frames()
            inside = 0
            for i, ident in threads.items():
                fr = frames.get(ident)
                names = [f.filename for f in traceback.extract_stack(fr)] if fr is not None else []
                if any("/tawazi/_dag/helpers.py" in n for n in names):
                    inside += 1
            time.sleep(1.0)
            if inside == len(threads) == k and len(entered) == before:
                stuck += 1
        if stuck == 3:
            res.viol("hang-runtime-nested-calls", f"{k} {res_name} nodes (max_concurrency={mc}) each call an inner DAG from inside their function: after 20 s all of them sit in the inner scheduler and no inner node is entered any more ({len(entered)} entered so far)")
        else:
            res.inconclusive = "runtime-nested-stall-without-witness"
        barrier.abort()
        return res
    if "exc" in out:
        res.viol("runtime-nested-raised", f"the outer call raised {type(out['exc']).__name__}: {str(out['exc'])[:200]}")
    elif out.get("value") != tuple(("outer", i, ("sum", ("leaf", i), ("leaf", i))) for i in range(k)):
        res.viol("runtime-nested-value", f"returned {out.get('value')!r}")
    return res


def run_case(case: Dict[str, Any]) -> CaseResult:
    if case.get("family") == "runtime-nested":
        return _runtime_nested(case)
    return sc.evaluate(case, ORACLES, _nt)


def strategy(tier: str) -> Any:
    from hypothesis import strategies as st

    nested = st.builds(lambda k, extra, r, a, imc: {"family": "runtime-nested", "k": k, "mc": k + extra, "res": r, "async": a, "inner_mc": imc},
                       st.integers(2, 3), st.integers(0, 1), st.sampled_from(["async-thread", "thread"]), st.booleans(), st.integers(1, 2))
    from .c04 import _very_wide  # scale: 33-48 independent pooled nodes, all of them allowed in flight at once

    base = _sched_strategy(tier)
    wide = _very_wide()

    @st.composite
    def pick(draw: Any) -> Any:
        k = draw(st.integers(0, 49))
        return draw(wide if k == 0 else nested if k in (1, 2) else base)

    return pick()


def _sched_strategy(tier: str) -> Any:
    return sc.sched_case(tier=tier, modes=("ctl", "ctl", "free", "ctl-ex"), min_sites=2, max_sites=9, flags=True,
                         seq_rate=0.25, prio=(-2, 4), faults=2, sel_rate=0.2, max_mc=4, profile_rate=0.25,
                         n_setup=2, n_debug=2, setup_call_rate=0.2, reuse=True)


def run_shard(H: Harness) -> None:
    if H.tier == "thorough":
        sc.run_small_scope(H, ("fail", "seq"), mcs=(1, 2))
    H.run_hypothesis(strategy)


MANIFEST = {
    "engine": "sched",
    "technique": "property-based testing / fault injection with controlled schedules: generated DAGs, failing and deactivated nodes, every completion order for small cases; watchdog with structural hang witness",
    "level_text": "Fault enumeration + exploration: for each generated DAG the failing nodes (0-2) and the completion order are drawn (or the order tree enumerated); termination is decided as 'the call returned or raised within a bounded number of scheduler steps', hangs are reported only with a structural witness (scheduler inside tawazi, nothing it could wait for).",
    "level_note": "Thorough tier additionally enumerates a complete small scope (every DAG on 4 ordered nodes x the property's own dimension - priorities / sequential subsets / failing node - with the whole completion-order tree of each). Bounded liveness, not liveness. Trusted: watchdog (vlib/sched.py) and the wait interposers.",
}
