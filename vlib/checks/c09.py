"""C09 - every execution terminates, whatever order nodes finish in."""
from typing import Any, Dict, List

from .. import schedchecks as sc
from ..harness import CaseResult, Harness
from ..schedcase import Model

PID = "C09"
LEVEL = "fault_enumeration"
ORACLES = ("termination",)
RULE = (
    "cases = call-only DAG programs (2-9 sites) with flags (deactivated nodes), sequential nodes, three resources, "
    "max_concurrency 1..4 (incl. 1 with sequential nodes), 0-2 injected failing nodes, both flavours, executor "
    "selections, 0-2 setup and 0-2 debug sites (RUN_DEBUG_NODES on or off), one case in five is dag.setup(target_nodes=...) "
    "instead of a call; schedules: controlled, exhaustive choice tree, free. oracle: the call returns or raises; a wait on an "
    "empty future set with FIRST_COMPLETED (blocks forever) is a hang; no progress for 8 s with the scheduler inside "
    "tawazi and nothing in flight (or nodes in flight that it never waits for) is a hang with structural witness - a "
    "bare timeout is only 'inconclusive'; blocking waits <= 2*pooled+2; on normal return every selected active site "
    "ran. non-trivial = >= 2 pooled nodes and >= 1 of {failing, deactivated, sequential, mixed resources}."
)
ASSUMPTIONS = [
    "bounded liveness: 'terminates' = returns within a bounded number of scheduler wait steps under every generated completion order",
    "hang verdicts need a structural witness sampled from sys._current_frames(); time alone never decides",
]
BUDGET = {"quick": {"shards": 8, "seconds": 40}, "thorough": {"shards": 16, "seconds": 420}}


def _nt(case: Dict[str, Any], M: Model, stats: List[Dict[str, Any]]) -> bool:
    pooled = [s for s in M.sites if M.pooled(s)]
    feats = bool(case.get("failing")) or any(x.get("active") is not None for x in M.P["body"]) or any(M.seq.values()) \
        or len({M.res[s] for s in pooled}) >= 2
    return len(pooled) >= 2 and feats


def run_case(case: Dict[str, Any]) -> CaseResult:
    return sc.evaluate(case, ORACLES, _nt)


def strategy(tier: str) -> Any:
    return sc.sched_case(tier=tier, modes=("ctl", "ctl", "free", "ctl-ex"), min_sites=2, max_sites=9, flags=True,
                         seq_rate=0.25, prio=(-2, 4), faults=2, sel_rate=0.2, max_mc=4, profile_rate=0.25,
                         n_setup=2, n_debug=2, setup_call_rate=0.2)


def run_shard(H: Harness) -> None:
    if H.tier == "thorough":
        sc.run_small_scope(H, ("fail", "seq"), mcs=(1, 2))
    H.run_hypothesis(strategy)


MANIFEST = {
    "engine": "sched",
    "technique": "property-based testing / fault injection with controlled schedules: generated DAGs, failing and deactivated nodes, every completion order for small cases; watchdog with structural hang witness",
    "level_text": "Fault enumeration + exploration: for each generated DAG the failing nodes (0-2) and the completion order are drawn (or the order tree enumerated); termination is decided as 'the call returned or raised within a bounded number of scheduler steps', hangs are reported only with a structural witness (scheduler inside tawazi, nothing it could wait for).",
    "level_note": "Thorough tier additionally enumerates a complete small scope (every DAG on 4 ordered nodes x the property's own dimension - priorities / sequential subsets / failing node - with the whole completion-order tree of each). Bounded liveness, not liveness. Trusted: watchdog (vlib/sched.py) and the wait interposers.",
}
