"""C11 - a setup node runs at most once per DAG instance and its value is reused."""
from typing import Any, Dict, List

from hypothesis import strategies as st
from hypothesis.stateful import RuleBasedStateMachine, initialize, invariant, precondition, rule

from .. import gen, hist, prog, schedchecks as sc
from ..harness import CaseResult, Harness, Violation

PID = "C11"
LEVEL = "exploration"
RULE = (
    "stateful (Hypothesis RuleBasedStateMachine): one generated call-only program with 0-4 setup sites (independent "
    "and chained, constant arguments, value stamped with the index of the operation that executed it) and ordinary "
    "sites depending on some of them, sync or async flavour; rules = call, executor(T/X/R selection)(), create an "
    "executor now and run it later (after other operations), setup(), "
    "setup(target_nodes=...), executor(sel).setup(), deepcopy (adds an independent instance); after every operation: "
    "entries of node functions == what the reference executes given the setup sites this instance has already "
    "computed, returned values == reference (hence every later execution sees the first stamp), per (instance, setup "
    "site) entries over the whole history <= 1. A second generator builds invalid programs (setup site taking a "
    "non-setup result or a DAG argument, directly / as kwarg / indexed / as flag) which must be rejected at build "
    "time. non-trivial = history of >= 3 operations on a program with >= 2 setup sites including a selection that "
    "needs a strict subset of them, or an invalid program."
)
ASSUMPTIONS = [
    "only successful operations (the property's precondition); setup(sel) is generated with target_nodes only",
    "deep copies inherit the setup values already computed by the instance they were copied from",
]
BUDGET = {"quick": {"shards": 8, "seconds": 40}, "thorough": {"shards": 16, "seconds": 420}}


def program_strategy() -> Any:
    return gen.flat_prog(min_sites=2, max_sites=8, max_deps=3, resources=gen.RES, dep_kinds=("pos", "kw"),
                         stamp_setup=True, mark_roots=True).flatmap(lambda p: st.just(p))


@st.composite
def programs(draw: Any) -> Dict[str, Any]:
    return draw(gen.flat_prog(min_sites=2, max_sites=8, max_deps=3, resources=gen.RES, dep_kinds=("pos", "kw"),
                              n_setup=draw(st.integers(0, 4)), stamp_setup=True, prio_range=(-1, 2),
                              # without the constant site marker, setup sites that take no input are roots of the
                              # graph: root selections (and setup nodes starved by them) become possible
                              mark_roots=draw(st.booleans()), mutable_setup_rate=0.4))


def _subset_flag(I: hist.Interp, ops: List[Dict[str, Any]]) -> bool:
    from ..schedcase import selection

    setups = {s for s in I.M.sites if I.M.spec[s].get("setup")}
    for op in ops:
        sel = None
        if op["op"] in ("exec", "exec_setup"):
            sel = op.get("sel")
        elif op["op"] == "setup" and op.get("T") is not None:
            sel = {"T": op["T"]}
        if sel:
            clo = selection(I.M, sel) or set()
            if 0 < len(clo & setups) < len(setups):
                return True
    return False


def replay(case: Dict[str, Any]) -> CaseResult:
    res = CaseResult()
    if case.get("invalid"):
        return _invalid(case, res)
    I = hist.Interp(case["prog"], bool(case.get("async")), mc=case.get("mc", 2))
    res.evals = 0
    for op in case["ops"]:
        for b, m in I.apply(op):
            res.viol(b, m)
        res.evals += 1
        if res.violations:
            break
    _classify(case, I, res)
    return res


def _classify(case: Dict[str, Any], I: hist.Interp, res: CaseResult) -> None:
    nsetup = sum(1 for s in I.M.sites if I.M.spec[s].get("setup"))
    res.nontrivial = len(case["ops"]) >= 3 and nsetup >= 2 and _subset_flag(I, case["ops"])
    res.cls(f"setup-sites-{nsetup}", "async" if case.get("async") else "sync")
    for k in {o["op"] for o in case["ops"]}:
        res.cls("op-" + k)
    res.note = {"ops": len(case["ops"]), "setup_sites": nsetup}


def _invalid(case: Dict[str, Any], res: CaseResult) -> CaseResult:
    from tawazi.errors import TawaziBaseException

    res.nontrivial = True
    res.cls("invalid-" + case["invalid"])
    try:
        prog.build(case["prog"], mc=1)
    except TawaziBaseException:
        return res
    except BaseException as e:  # noqa: BLE001
        res.viol("invalid-wrong-exception", f"setup node depending on {case['invalid']} raised {type(e).__name__}: {e}")
        return res
    res.viol("invalid-accepted", f"a DAG whose setup node depends on {case['invalid']} was accepted at build time")
    return res


run_case = replay


@st.composite
def invalid_cases(draw: Any, tier: str) -> Dict[str, Any]:
    P = draw(gen.flat_prog(min_sites=2, max_sites=5, max_deps=2, n_setup=1, n_params=1))
    # append a setup site that consumes something it must not
    what = draw(st.sampled_from(["non-setup-result", "dag-argument"]))
    how = draw(st.sampled_from(["arg", "kwarg", "index", "flag"]))
    src: Any
    if what == "dag-argument":
        src = ["p", "p0"]
    else:
        non = [s for s in P["body"] if not P["fns"][s["fn"]].get("setup")]
        if not non:
            src, what = ["p", "p0"], "dag-argument"
        else:
            src = ["v", draw(st.sampled_from(non))["out"]]
    fn = f"z{len(P['fns'])}"
    P["fns"][fn] = {"kind": "term", "res": "thread", "setup": True}
    s: Dict[str, Any] = {"k": "call", "fn": fn, "site": gen.site(len(P["body"])), "mark": True, "args": [], "kwargs": {},
                         "active": None, "unpack": None, "tags": [], "out": f"v{len(P['body'])}"}
    if how == "arg":
        s["args"] = [src]
    elif how == "kwarg":
        s["kwargs"] = {"k": src}
    elif how == "index":
        s["args"] = [["i", src, 0]]
    else:
        s["active"] = src
    P["body"].append(s)
    P["ret"][1].append(["v", s["out"]])
    return {"prog": P, "invalid": f"{what}-via-{how}"}


def make_machine(H: Harness) -> Any:
    class SetupMachine(RuleBasedStateMachine):
        def __init__(self) -> None:
            super().__init__()
            self.I: Any = None
            self.case: Dict[str, Any] = {}
            self.failed = False

        @initialize(P=programs(), is_async=st.booleans(), mc=st.integers(1, 3))
        def init(self, P: Dict[str, Any], is_async: bool, mc: int) -> None:
            self.case = {"prog": P, "async": is_async, "mc": mc, "ops": []}
            self.I = hist.Interp(P, is_async, mc=mc)

        def do(self, op: Dict[str, Any]) -> None:
            self.case["ops"].append(op)
            found = H.guarded_apply(self.I.apply, op)
            if found:
                self.failed = True
                res = CaseResult()
                for b, m in found:
                    res.viol(b, m)
                res.evals = len(self.case["ops"])
                H.record({k: (list(v) if k == "ops" else v) for k, v in self.case.items()}, res, raise_on_violation=True)

        def _inst(self, data: Any) -> int:
            return data.draw(st.integers(0, len(self.I.insts) - 1))

        @rule(data=st.data())
        def call(self, data: Any) -> None:
            self.do({"op": "call", "inst": self._inst(data), "args": []})

        @rule(data=st.data())
        def executor(self, data: Any) -> None:
            self.do({"op": "exec", "inst": self._inst(data), "sel": data.draw(sc.selection_strategy(self.case["prog"])), "args": []})

        @rule(data=st.data())
        def setup_all(self, data: Any) -> None:
            self.do({"op": "setup", "inst": self._inst(data), "T": None})

        @rule(data=st.data())
        def setup_some(self, data: Any) -> None:
            sites = self.I.M.sites
            T = data.draw(st.lists(st.sampled_from(sites), min_size=0, max_size=3, unique=True))  # [] = nothing
            self.do({"op": "setup", "inst": self._inst(data), "T": T})

        @rule(data=st.data())
        def executor_setup(self, data: Any) -> None:
            sites = self.I.M.sites
            T = data.draw(st.lists(st.sampled_from(sites), min_size=0, max_size=3, unique=True))
            self.do({"op": "exec_setup", "inst": self._inst(data), "sel": {"T": T}})

        @precondition(lambda self: self.I is not None and len(self.I.execs) < 4)
        @rule(data=st.data())
        def make_executor(self, data: Any) -> None:
            # an executor created now and run later, possibly after setup() / other calls on the DAG
            sel = data.draw(st.one_of(st.none(), sc.selection_strategy(self.case["prog"])))
            self.do({"op": "mkexec", "inst": self._inst(data), "sel": sel})

        @precondition(lambda self: self.I is not None and any(e["runs"] == 0 for e in self.I.execs))
        @rule(data=st.data())
        def run_stored_executor(self, data: Any) -> None:
            fresh = [k for k, e in enumerate(self.I.execs) if e["runs"] == 0]
            self.do({"op": "runexec", "e": data.draw(st.sampled_from(fresh)), "args": []})

        @precondition(lambda self: self.I is not None and len(self.I.insts) < 3)
        @rule(data=st.data())
        def deepcopy(self, data: Any) -> None:
            self.do({"op": "copy", "inst": self._inst(data)})

        def teardown(self) -> None:
            if self.I is not None and not self.failed and self.case.get("ops"):
                res = CaseResult()
                res.evals = len(self.case["ops"])
                _classify(self.case, self.I, res)
                H.record(self.case, res)

    return SetupMachine


def strategy(tier: str) -> Any:
    return invalid_cases(tier)


def run_shard(H: Harness) -> None:
    # a short slice for the build-time clause, the rest for histories
    save = H.deadline
    H.deadline = H.t0 + min(6.0, (save - H.t0) * 0.15)
    H.run_hypothesis(strategy, batch=100)
    H.deadline = save
    H.run_machine(lambda: make_machine(H), batch=25, steps=20)


MANIFEST = {
    "engine": "hist",
    "technique": "stateful property-based testing: Hypothesis rule-based state machine over call / executor / setup / deepcopy histories with a Python model of per-instance setup state, stamped setup values, entry counters",
    "level_text": "Exploration of histories: the state machine draws operation sequences (<= 20 steps, <= 3 instances) on a generated program; every operation is compared with the reference given the model's setup state, so a re-executed setup node, a lost setup result, an unnecessary setup execution in a sub-graph run or shared state between deep copies is a shrunk operation log (replayable from JSON without Hypothesis).",
    "level_note": "Trusted: the interpreter/model in vlib/hist.py and the reference evaluator. Failing operations are not part of the histories.",
}
