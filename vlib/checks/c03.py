"""C03 - each selected active node runs exactly once per execution, nothing else runs."""
from typing import Any, Dict, List

from hypothesis import strategies as st

from .. import gen, oracle, prog, schedchecks as sc
from ..harness import CaseResult, Harness
from ..schedcase import Model, execute, make_executor

PID = "C03"
LEVEL = "exploration"
RULE = (
    "cases = call-only DAG programs (2-9 sites) with reused functions (one decorated function at several call sites, "
    "including pairs of sites with IDENTICAL arguments, and one function at 10-13 sites), deactivated sites (flags of known truthiness), 0-2 setup "
    "sites, 0-2 debug sites (RUN_DEBUG_NODES off, or on for whole-DAG calls), three resources, max_concurrency 1..4, "
    "both flavours; a history of 1-3 operations on the SAME DAG instance, each a whole-DAG call, a run through a fresh "
    "executor(target/exclude/root), a run of an executor object created BEFORE the first operation, or dag.setup(target_nodes), each under its own schedule (controlled / free). oracle per call that completes: "
    "multiset of node-function entries == multiset of sites the reference evaluation executes for that selection "
    "(setup sites only on their first use); returned tuple == reference. non-trivial = >= 1 site that must not run "
    "(unselected / deactivated / already set up / disabled debug) and (a reused function or >= 2 calls)."
    " Round 8-10 additions: during the last call of a history the pool may fail to start its k-th worker (RuntimeError out of submit, the work item stays queued): the call may fail with that error, no call site is entered more often than in the reference; bound-method node functions (two instances, one qualified name)."
)
ASSUMPTIONS = [
    "selection closure as documented (roots -> descendants, minus excluded -> descendants, restricted to targets + ancestors)",
    "only executions that complete without error are judged (the property's precondition)",
]
BUDGET = {"quick": {"shards": 8, "seconds": 40}, "thorough": {"shards": 16, "seconds": 420}}
ORACLES = ("exactly_once", "values", "no_internal_error")


def run_case(case: Dict[str, Any]) -> CaseResult:
    res = CaseResult()
    P = case["prog"]
    built = None
    pre: Dict[str, Any] = {}
    must_not_run = False
    res.evals = 0
    early: Dict[int, Any] = {}
    if any(call.get("early") for call in case["calls"]):
        # executor objects created at the start of the history and run later (after other calls / dag.setup())
        try:
            built = prog.build(P, is_async=bool(case.get("async")), mc=case.get("mc", 1))
            for i, call in enumerate(case["calls"]):
                if call.get("early"):
                    early[i] = make_executor(built, call.get("sel"))
        except BaseException as e:  # noqa: BLE001
            res.viol("build-error", f"building / creating executors raised {type(e).__name__}: {e}")
            return res
    for i, call in enumerate(case["calls"]):
        c = dict(case, **call)
        c.pop("calls")
        M = Model(c)
        out = execute(c, M, built=built, pre=dict(pre), target_override=early.get(i))
        res.evals += 1
        if out.build_exc is not None:
            res.viol("build-error", f"call {i}: building / selecting raised {type(out.build_exc).__name__}: {out.build_exc}")
            return res
        built = out.built
        T = oracle.Trace(M, out)
        tag = f" [call {i} of {len(case['calls'])}, mode={c.get('mode')}, sel={c.get('sel')}]"
        for r, m, k in oracle.exactly_once(T, c):
            res.viol(r, m + tag, k)
        spawn_fired = out.ex is not None and any(e["k"] == "SPAWNFAIL" for e in out.ex.events)
        if spawn_fired:
            res.cls("spawn-fault-fired")
        if out.exc is not None and spawn_fired and sc._is_spawn_fault(out.exc):
            break  # the injected pool fault failed the call (it is the last one of the history)
        if out.exc is not None:
            res.viol("internal-error", f"the call raised {type(out.exc).__name__}: {out.exc}" + tag)
        elif c.get("call") != "setup" and out.ref_exc is None and out.value != out.ref_value:
            res.viol("value", f"returned {out.value!r}, reference {out.ref_value!r}" + tag)
        if res.violations:
            return res
        R = out.ref
        assert R is not None
        executed = set(R.executed)
        if len(executed) < len(M.sites):
            must_not_run = True
        for s in executed:
            if M.spec[s].get("setup"):
                pre[s] = R.values[s]
    fns = [s["fn"] for s in P["body"]]
    reused = len(set(fns)) < len(fns)
    res.nontrivial = must_not_run and (reused or len(case["calls"]) >= 2)
    res.cls(f"calls-{len(case['calls'])}")
    if reused:
        res.cls("reused-fn")
    if any(not s["mark"] and fns.count(s["fn"]) > 1 for s in P["body"]):
        res.cls("identical-args-pair")
    if any(c.get("sel") for c in case["calls"]):
        res.cls("sel")
    if any(c.get("early") for c in case["calls"]):
        res.cls("executor-created-early")
    if any(c.get("call") == "setup" for c in case["calls"]):
        res.cls("setup-call")
    if any(f.get("setup") for f in P["fns"].values()):
        res.cls("setup")
    if any(f.get("debug") for f in P["fns"].values()):
        res.cls("debug-sites")
    res.note = {"calls": len(case["calls"])}
    return res


@st.composite
def cases(draw: Any, tier: str) -> Dict[str, Any]:
    want_sel = draw(st.booleans())
    base = draw(sc.sched_case(tier=tier, modes=("free",), flags=draw(st.booleans()), seq_rate=0.1, prio=(-2, 3),
                              max_mc=4, reuse=True))
    # rebuild the program with the features C03 needs (sched_case only fixed mc/async for us)
    P = draw(gen.flat_prog(min_sites=2, max_sites=9, max_deps=3, resources=gen.RES, prio_range=(-2, 3), seq_rate=0.1,
                           dep_kinds=("pos", "kw", "flag") if draw(st.booleans()) else ("pos", "kw"), reuse=True,
                           n_setup=draw(st.integers(0, 2)), n_debug=draw(st.integers(0, 2)),
                           dup_rate=0.2, mark_roots=not want_sel, split_rate=0.25, same_qual_rate=0.1))
    if draw(st.sampled_from([True] + [False] * 7)):
        # one decorated function at 10-13 call sites: the per-call-site ids reach <<10>> and beyond
        n = draw(st.integers(10, 13))
        res_ = draw(st.sampled_from(list(gen.RES)))
        body = []
        for i in range(n):
            dep = draw(st.one_of(st.none(), st.integers(0, i - 1))) if i else None
            body.append({"k": "call", "fn": "many", "site": gen.site(i), "mark": True,
                         "args": [] if dep is None else [["v", f"v{dep}"]], "kwargs": {}, "active": None, "unpack": None,
                         "tags": [], "out": f"v{i}"})
        P = {"name": "P", "params": [], "fns": {"many": {"kind": "term", "res": res_}}, "body": body,
             "ret": ["T", [["v", f"v{i}"] for i in range(n)]]}
        want_sel = False
    for s in P["body"]:
        a = s.get("active")
        if a is not None and a[0] == "v":
            prod = [x for x in P["body"] if x["out"] == a[1]][0]
            f = P["fns"][prod["fn"]]
            if not f.get("setup") and f.get("kind") not in ("tup", "dict") and not f.get("pair"):
                f["kind"] = "const"
                f["val"] = draw(st.sampled_from([0, 1, "", "x", None, True, False]))
    case: Dict[str, Any] = {"prog": P, "mc": base["mc"], "async": base["async"], "calls": []}
    has_debug = any(f.get("debug") for f in P["fns"].values())
    has_setup = any(f.get("setup") for f in P["fns"].values())
    for _ in range(draw(st.integers(1, 3))):
        call: Dict[str, Any] = {"mode": draw(st.sampled_from(["ctl", "free"]))}
        if call["mode"] == "ctl":
            call["choices"] = draw(st.lists(st.integers(0, 2**16), max_size=10))
        else:
            call["sleeps"] = {s["site"]: draw(st.integers(0, 3)) for s in P["body"] if draw(st.booleans())}
        call["sel"] = draw(sc.selection_strategy(P)) if (want_sel and draw(st.integers(0, 2)) > 0) else None
        call["debug"] = bool(has_debug and not call["sel"] and draw(st.booleans()))
        if has_setup and not call["debug"] and draw(st.sampled_from([True, False, False, False])):
            call["call"] = "setup"  # dag.setup(target_nodes=T): only the setup part of the selection runs
            if call["sel"]:
                call["sel"] = {"T": call["sel"].get("T"), "X": None, "R": None}
        elif len(case["calls"]) > 0 and not call["debug"] and draw(st.sampled_from([True, False, False])):
            call["early"] = True  # the executor object is created before the first call of the history
        case["calls"].append(call)
    if gen.chance(draw, 0.08) and case["calls"][-1].get("call") != "setup":
        # fault at a point: during the last call the pool cannot start its k-th worker thread
        case["calls"][-1]["spawn_fail"] = draw(st.integers(0, max(0, case["mc"] - 1)))
    return case


def strategy(tier: str) -> Any:
    return cases(tier)


def run_shard(H: Harness) -> None:
    H.run_hypothesis(strategy)


MANIFEST = {
    "engine": "sched",
    "technique": "property-based testing: generated DAGs with reused functions / selections / setup / debug / deactivated sites and short call histories, entry-multiset oracle against the reference evaluator",
    "level_text": "Exploration over programs x selections x schedules x short histories on one instance. Every node-function entry is recorded, so a double dispatch, a leaked unselected / disabled node or a re-run setup node shows up as a multiset difference with the reference.",
    "level_note": "Trusted: reference evaluator + documented selection closure (vlib/schedcase.selection). Call sites are identified by a constant marker argument or, for identical-argument pairs, by multiset count.",
}
