"""C04 - at most max_concurrency pooled nodes in flight; resources decide the thread."""
from typing import Any, Dict, List

from hypothesis import strategies as st

from .. import gen, schedchecks as sc
from ..harness import CaseResult, Harness
from ..schedcase import Model

PID = "C04"
LEVEL = "exploration"
ORACLES = ("bound_placement", "values", "no_internal_error")
RULE = (
    "cases = wide call-only DAG programs (3-10 sites, many roots / fan-out so that more nodes are ready than "
    "max_concurrency), every mix of thread / async-thread / main-thread resources, max_concurrency 1..5, both flavours, "
    "attributes through decorators or config_from_dict; schedules: controlled (gated nodes stay in flight, so an "
    "over-submission is held open), exhaustive choice tree for small cases, and free-running. oracle: at every pool "
    "submission the number of submitted-and-unfinished pooled futures <= max_concurrency; the number of pooled nodes "
    "simultaneously inside their function <= max_concurrency; pooled nodes never enter on the invoking thread, "
    "main-thread nodes always do. non-trivial = at some blocking wait in-flight == max_concurrency while another node "
    "was ready (the bound was binding) and the DAG uses >= 2 resources."
    " Round 8-10 additions: pool-spawn fault; activation flags and debug sites in the programs; a reconfiguration with an unusable last entry (every attribute shown afterwards is old or new, the model follows what the API shows); a 'very wide' family of 33-48 independent pooled nodes with max_concurrency >= n; call from a non-main thread / debug logging on / warnings as errors."
)
ASSUMPTIONS = [
    "pool submissions are observed through the ThreadPoolExecutor subclass installed by the harness",
    "the invoking thread is the thread that calls the DAG (for AsyncDAG: the thread running the event loop)",
]
BUDGET = {"quick": {"shards": 8, "seconds": 40}, "thorough": {"shards": 16, "seconds": 420}}


def _nt(case: Dict[str, Any], M: Model, stats: List[Dict[str, Any]]) -> bool:
    return any(s["bound_binding"] and len(s["resources"]) >= 2 for s in stats)


def run_case(case: Dict[str, Any]) -> CaseResult:
    res = sc.evaluate(case, ORACLES, _nt)
    if case.get("very_wide"):
        res.cls("very-wide-33-48-independent-nodes")
    return res


@st.composite
def _very_wide(draw: Any) -> Dict[str, Any]:
    """Scale: 33-48 independent pooled nodes with a max_concurrency at least as large - every one of them can be in
    flight at once, so every one of them has a worker (the pool is as large as the limit the user configured)."""
    n = draw(st.integers(33, 48))
    kinds = draw(st.sampled_from([["thread"], ["async-thread"], ["thread", "async-thread"]]))
    fns, body = {}, []
    for i in range(n):
        fns[f"w{i}"] = {"kind": "term", "res": kinds[i % len(kinds)], "prio": draw(st.integers(0, 2))}
        body.append({"k": "call", "fn": f"w{i}", "site": gen.site(i), "mark": True, "args": [], "kwargs": {}, "active": None,
                     "unpack": None, "tags": [], "out": f"v{i}"})
    P = {"name": "WIDE", "params": [], "fns": fns, "body": body, "ret": ["T", [["v", f"v{i}"] for i in range(n)]]}
    return {"prog": P, "mc": n + draw(st.integers(0, 16)), "async": draw(st.booleans()), "mode": "ctl",
            "choices": draw(st.lists(st.integers(0, 2**16), max_size=6)), "very_wide": True}


@st.composite
def _cases(draw: Any, tier: str) -> Dict[str, Any]:
    if draw(st.integers(0, 79)) == 0:
        return draw(_very_wide())
    return draw(_base(tier))


def strategy(tier: str) -> Any:
    return _cases(tier)


def _base(tier: str) -> Any:
    return sc.sched_case(tier=tier, modes=("ctl", "ctl", "free", "ctl-ex"), min_sites=3, max_sites=10, wide=True,
                         seq_rate=0.1, prio=(-2, 4), config_rate=0.15, max_mc=4, n_setup=2, setup_call_rate=0.15,
                         spawn_fail_rate=0.1, flag_rate=0.3, n_debug=2)


def run_shard(H: Harness) -> None:
    if H.tier == "thorough":
        sc.run_small_scope(H, (), flavours=(False, True), mcs=(1, 2))
    H.run_hypothesis(strategy)


MANIFEST = {
    "engine": "sched",
    "technique": "property-based testing with controlled schedules: generated wide DAGs, gated node functions hold in-flight nodes open, bound and thread-placement predicates over the event trace",
    "level_text": "Exploration. Because pooled nodes block on harness gates until the scheduler's own wait call releases them, an over-submission cannot be missed by timing: the extra node is still in flight when it is counted. Placement is checked on every node entry in both flavours.",
    "level_note": "Thorough tier additionally enumerates a complete small scope (every DAG on 4 ordered nodes x the property's own dimension - priorities / sequential subsets / failing node - with the whole completion-order tree of each). Trusted: interposed ThreadPoolExecutor subclass counts submitted-and-unfinished futures; thread identity from threading.get_ident().",
}
