"""C06 - the node that starts is always a highest-compound-priority ready node."""
from typing import Any, Dict, List

from .. import schedchecks as sc
from ..harness import CaseResult, Harness
from ..schedcase import Model

PID = "C06"
LEVEL = "exploration"
ORACLES = ("priority", "values", "no_internal_error")
RULE = (
    "cases = call-only DAG programs (3-9 sites, wide, priorities -3..5 with forced ties, sequential flags, three "
    "resources, max_concurrency 1..4, both flavours, ~40% executed through executor(target/exclude/root), some with "
    "priorities applied by config_from_dict, 0-2 debug sites with RUN_DEBUG_NODES on or off, 0-3 setup sites and one case in seven being dag.setup(target_nodes=...) "
    "instead of a call); controlled schedules only (sampled choice vectors and exhaustive choice "
    "trees). oracle: at every dispatch (pool submit, asyncio task creation, inline entry) of node n, no node that the "
    "scheduler can know to be ready (all dependencies observed finished in a returned wait or run inline, itself not "
    "dispatched) has a strictly greater compound priority, compound priority = own + distinct descendants in the "
    "full DAG computed by the harness; ties accept any maximal node. non-trivial = >= 1 dispatch decision with >= 2 "
    "ready nodes of different compound priority."
    " Round 8-10 additions: reconfigurations with an unusable last entry / unusable max_concurrency (read-back oracle); environment axes (non-main calling thread, debug logging, warnings as errors)."
)
ASSUMPTIONS = [
    "completions happen only inside the scheduler's wait calls (controller), so 'finished' and 'observed finished' coincide at every decision",
    "nodes downstream of a deactivated node are left out of the comparison set (the moment of the skip leaves no trace)",
]
BUDGET = {"quick": {"shards": 8, "seconds": 40}, "thorough": {"shards": 16, "seconds": 420}}


def _nt(case: Dict[str, Any], M: Model, stats: List[Dict[str, Any]]) -> bool:
    return any(s.get("decisions_diff_cp", 0) >= 1 for s in stats)


def run_case(case: Dict[str, Any]) -> CaseResult:
    return sc.evaluate(case, ORACLES, _nt)


def strategy(tier: str) -> Any:
    return sc.sched_case(tier=tier, modes=("ctl", "ctl", "ctl-ex"), min_sites=3, max_sites=9, wide=True,
                         seq_rate=0.12, prio=(-3, 5), config_rate=0.15, sel_rate=0.4, max_mc=4,
                         n_setup=3, setup_call_rate=0.15, n_debug=2)


def run_shard(H: Harness) -> None:
    if H.tier == "thorough":
        sc.run_small_scope(H, ("prio",), mcs=(1, 2))
    H.run_hypothesis(strategy)


MANIFEST = {
    "engine": "sched",
    "technique": "property-based testing with controlled schedules: generated DAGs and priorities, scheduler-knowledge model replayed over the event trace, closed-form compound priority",
    "level_text": "Exploration. The controller makes the ready set at every dispatch decision exact (no timing), so every decision of the real scheduler is compared with the definition; sub-graph executions use the same oracle. Absence only within generated shapes (<= 9 sites) and sampled / enumerated completion orders.",
    "level_note": "Thorough tier additionally enumerates a complete small scope (every DAG on 4 ordered nodes x the property's own dimension - priorities / sequential subsets / failing node - with the whole completion-order tree of each). Trusted: the harness's compound-priority definition and ready-set model (vlib/oracle.py Know); dispatch of async-thread nodes is observed at asyncio.ensure_future.",
}
