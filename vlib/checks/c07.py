"""C07 - compound priority is a deterministic, documented function of the DAG."""
import atexit
import itertools
import json
import os
import subprocess
import sys
from typing import Any, Dict, List, Optional

from hypothesis import strategies as st

from .. import c07_worker, gen
from ..harness import CaseResult, Harness

PID = "C07"
LEVEL = "exploration"
RULE = (
    "cases = call-only DAG programs (all-thread nodes, integer priorities) x {plain, reconfigured with "
    "config_from_dict, executor with target/exclude/root selection}, with 0-2 debug sites and RUN_DEBUG_NODES on or off (pulled-in debug nodes are part of the executor table), DAG or AsyncDAG flavour; each case is built and run (max_concurrency=1) "
    "in 4 processes with different PYTHONHASHSEED; oracle: table == own priority + sum over distinct descendants "
    "(computed by the harness), identical across processes, identical on sub-graphs, and the execution order equals "
    "the unique order of 'take the max compound priority ready node' as long as there is no tie. Phase 1 enumerates "
    "ALL 64 edge sets on 4 ordered nodes x priorities in {-1,0,1,2}^4 (16384 cases). non-trivial = some node is "
    "reachable from an ancestor by >= 2 distinct paths (the shape is not a forest); distinct = distinct case JSON."
    " Round 8-10 additions: reconfigurations carrying one unusable entry at a drawn position or an unusable max_concurrency (the table must follow the priorities the API shows afterwards); an executor for the same selection created before the reconfiguration."
)
ASSUMPTIONS = [
    "compound priority of a node = its own priority + priorities of all distinct descendants in the full DAG",
    "node ids are resolved through the public get_nodes_by_tag API; priorities are read from graph_ids.compound_priority "
    "and executor.graph.compound_priority (the tables the scheduler reads)",
    "hash seeds explored: 0, 1, 17 and one derived from VERIF_SEED",
]
BUDGET = {"quick": {"shards": 8, "seconds": 45}, "thorough": {"shards": 16, "seconds": 420}}

_workers: List[subprocess.Popen] = []


def _spawn_workers(seed: int) -> None:
    if _workers or os.environ.get("VERIF_C07_NO_WORKERS"):
        return
    here = os.path.dirname(os.path.dirname(os.path.dirname(os.path.abspath(__file__))))
    for hs in (1, 17, 100 + seed % 4000):
        env = dict(os.environ, PYTHONHASHSEED=str(hs), PYTHONPATH=here)
        p = subprocess.Popen(
            [sys.executable, "-m", "vlib.c07_worker"], cwd=here, env=env, stdin=subprocess.PIPE,
            stdout=subprocess.PIPE, stderr=subprocess.DEVNULL, text=True, bufsize=1,
        )
        p.hs = hs  # type: ignore[attr-defined]
        _workers.append(p)
    atexit.register(_kill_workers)


def _kill_workers() -> None:
    for p in _workers:
        try:
            p.kill()
        except Exception:
            pass


def _local(case: Dict[str, Any]) -> Dict[str, Any]:
    """Evaluate in this process; like the workers, report an exception of the code under test as data."""
    try:
        return c07_worker.evaluate(case)
    except Exception as e:  # noqa: BLE001 - judged by run_case (internal-error)
        return {"error": f"{type(e).__name__}: {e}"[:500]}


def _ask_all(case: Dict[str, Any]) -> Dict[str, Any]:
    line = json.dumps(case) + "\n"
    for p in _workers:
        p.stdin.write(line)  # type: ignore[union-attr]
        p.stdin.flush()  # type: ignore[union-attr]
    out: Dict[str, Any] = {"hs0": _local(case)}
    for p in _workers:
        rep = p.stdout.readline()  # type: ignore[union-attr]
        if not rep:
            raise RuntimeError(f"c07 worker (hashseed {p.hs}) died")  # type: ignore[attr-defined]
        out[f"hs{p.hs}"] = json.loads(rep)  # type: ignore[attr-defined]
    return out


def predict_order(P: Dict[str, Any], cp: Dict[str, int], within: Optional[List[str]] = None) -> List[str]:
    """The unique order for max_concurrency=1, up to (excluding) the first tie."""
    deps = gen.deps_of(P)
    sites = [s for s in deps if within is None or s in within]
    done: List[str] = []
    left = set(sites)
    while left:
        ready = [s for s in left if all(d in done or d not in sites for d in deps[s])]
        best = max(cp[s] for s in ready)
        top = [s for s in ready if cp[s] == best]
        if len(top) > 1:
            break
        done.append(top[0])
        left.remove(top[0])
    return done


def _alive(case: Dict[str, Any]) -> List[str]:
    """Sites a whole-DAG call executes: all of them, minus the debug sites when RUN_DEBUG_NODES is off."""
    P = case["prog"]
    return [s["site"] for s in P["body"] if case.get("debug") or not P["fns"][s["fn"]].get("debug")]


def _judge(res: CaseResult, tagp: str, case: Dict[str, Any], r: Dict[str, Any], exp0: Dict[str, int], exp: Dict[str, int]) -> None:
    P = case["prog"]
    if r["t0"] != exp0:
        res.viol("table", f"[{tagp}] compound priority {r['t0']} != definition {exp0}")
    if "order0" in r:
        pred = predict_order(P, exp0, _alive(case))
        if r["order0"][: len(pred)] != pred:
            res.viol("order", f"[{tagp}] execution order {r['order0']} != predicted tie-free prefix {pred}")
    if case.get("reconf") is not None:
        if r.get("t1") != exp:
            res.viol("table-reconf", f"[{tagp}] after config_from_dict: {r.get('t1')} != definition {exp}")
        if "order1" in r:
            pred = predict_order(P, exp, _alive(case))
            if r["order1"][: len(pred)] != pred:
                res.viol("order-reconf", f"[{tagp}] execution order {r['order1']} != predicted tie-free prefix {pred}")
    if "tc" in r and r["tc"] != r["tc_def"]:
        diff = {n: (v, r["tc_def"][n]) for n, v in r["tc"].items() if v != r["tc_def"][n]}
        res.viol("table-composed", f"[{tagp}] compose({case['compose']}): table differs from the definition on the composed graph (got, expected): {diff}")
    if "t_end" in r and r["t_end"] != exp:
        res.viol("table-after-ops", f"[{tagp}] after {case['final_ops']} the DAG's table is {r['t_end']} != definition {exp}")
    if case.get("sel") is not None and "sel_error" not in r:
        want = {s: exp[s] for s in r["insel"]}
        if r["tx"] != want:
            res.viol("table-subgraph", f"[{tagp}] executor table {r['tx']} != full-DAG definition {want} (sel={case['sel']})")
        if "orderx" in r:
            pred = predict_order(P, exp, r["insel"])
            if r["orderx"][: len(pred)] != pred:
                res.viol("order-subgraph", f"[{tagp}] sub-graph execution order {r['orderx']} != predicted tie-free prefix {pred}")


def gen_prio(P: Dict[str, Any], site: str) -> int:
    st_ = [b for b in P["body"] if b["site"] == site][0]
    return int(P["fns"][st_["fn"]].get("prio", 0))


def run_case(case: Dict[str, Any]) -> CaseResult:
    res = CaseResult()
    P = case["prog"]
    deps = gen.deps_of(P)
    res.nontrivial = gen.n_paths_max(deps) > 1
    use_workers = bool(_workers) and not case.get("inproc")
    replies = _ask_all(case) if use_workers else {"hs0": _local(case)}
    res.evals = len(replies)
    base = replies["hs0"]
    for k, r in replies.items():
        if "error" in r:
            res.viol("internal-error", f"{k}: building/running the DAG raised {r['error']}")
            return res
    tables = ("t0", "t1", "tx", "insel", "sel_error", "t_end", "tc", "prio_shown", "reconf_raised")
    for k, r in replies.items():
        diff = [f for f in tables if r.get(f) != base.get(f)]
        if diff:
            res.viol("hashseed-dependent", f"process {k} disagrees with hs0 on {diff}: {({f: (base.get(f), r.get(f)) for f in diff})}")
            break
    exp0 = gen.compound_priority(P)
    exp = gen.compound_priority(P, case["reconf"]) if case.get("reconf") is not None else exp0
    if "prio_shown" in base:
        # a configuration with an unusable entry: refused or not, the table follows the priorities the API shows now
        shown = base["prio_shown"]
        if any(not isinstance(v, int) or isinstance(v, bool) for v in shown.values()):
            res.skipped = "unusable-priority-stored"
            return res
        exp = gen.compound_priority(P, shown)
    for k, r in replies.items():
        _judge(res, k, case, r, exp0, exp)
    cls = ["plain"]
    if len(predict_order(P, exp0)) == len(deps):
        cls.append("tie-free-order")
    if any(f.get("debug") for f in P["fns"].values()):
        cls.append("debug-sites-flag-" + ("on" if case.get("debug") else "off"))
        if case.get("sel") is not None and case.get("debug") and any(
                P["fns"][s["fn"]].get("debug") and s["site"] in base.get("insel", []) for s in P["body"]):
            cls.append("debug-site-in-subgraph")
    if case.get("reconf") is not None:
        cls.append("reconf")
        cls.append("reconf-via-" + case.get("reconf_via", "dict"))
        if case.get("reconf_bad") is not None:
            cls.append("reconf-with-unusable-entry")
            if base.get("reconf_raised") and any(base["prio_shown"].get(s_) != gen_prio(P, s_) for s_ in base["prio_shown"]):
                cls.append("reconf-refused-after-changing-nodes")
        if "reconf_bad_mc" in case:
            cls.append("reconf-with-unusable-max-concurrency")
        if case.get("sel_early"):
            cls.append("same-selection-before-reconf")
    if case.get("final_ops"):
        cls.append("table-reread-after-setup-ops")
    if "tc" in base:
        cls.append("composed-dag-table")
    if case.get("sel") is not None:
        cls.append("sel-" + "".join(k for k in "TXR" if case["sel"].get(k) is not None))
        if "sel_error" in base:
            cls.append("sel-rejected")
    res.cls(*cls)
    res.note = {"definition": exp0, "paths_max": gen.n_paths_max(deps)}
    return res


# ------------------------------------------------------------------------------- generators
@st.composite
def cases(draw: Any) -> Dict[str, Any]:
    n_debug = draw(st.sampled_from([0, 0, 1, 2]))
    P = draw(gen.flat_prog(min_sites=2, max_sites=10, max_deps=3, prio_range=(-4, 9), random_names=True,
                           mark_roots=False, n_debug=n_debug))
    sites = [s["site"] for s in P["body"]]
    case: Dict[str, Any] = {"prog": P}
    if n_debug:
        # debug sites carry priorities like any other node; with RUN_DEBUG_NODES on the debug rule may add them to a
        # sub-graph run, where they are scheduled by the same table (a debug site without constant arguments can be
        # pulled in, so most of them lose the site marker)
        case["debug"] = draw(st.booleans())
        for s in P["body"]:
            if P["fns"][s["fn"]].get("debug") and (s["args"] or s["kwargs"]) and draw(st.sampled_from([True, True, False])):
                s["mark"] = False
    if draw(st.sampled_from([True, False, False])):
        case["async"] = True  # AsyncDAG / AsyncDAGExecution flavour of the same questions
    mode = draw(st.sampled_from(["plain", "reconf", "sel", "sel", "reconf+sel"]))
    if "reconf" in mode:
        some = draw(st.lists(st.sampled_from(sites), min_size=1, max_size=len(sites), unique=True))
        case["reconf"] = {s: draw(st.integers(-4, 9)) for s in some}
        case["reconf_via"] = draw(st.sampled_from(["dict", "dict", "yaml", "json"]))
        rest_ = [s for s in sites if s not in some]
        if rest_ and gen.chance(draw, 0.2):
            # fault at a point: one entry is unusable (its position among the entries is drawn)
            case["reconf_bad"] = {"site": draw(st.sampled_from(rest_)), "pos": draw(st.integers(0, len(some))),
                                  "value": draw(st.sampled_from(["x", 1.5, None]))}
        if gen.chance(draw, 0.1):
            case["reconf_bad_mc"] = draw(st.sampled_from([0, -1, "2", 2.5]))
    if "sel" in mode:
        kind = draw(st.sampled_from(["T", "X", "R"]))
        deps = gen.deps_of(P)
        if kind == "R":
            roots = gen.true_roots(P)
            if roots:
                case["sel"] = {"R": draw(st.lists(st.sampled_from(roots), min_size=1, max_size=len(roots), unique=True))}
            else:
                kind = "T"
        if kind == "T":
            case["sel"] = {"T": draw(st.lists(st.sampled_from(sites), min_size=1, max_size=len(sites), unique=True))}
        if kind == "X":
            case["sel"] = {"X": draw(st.lists(st.sampled_from(sites), min_size=1, max_size=max(1, len(sites) - 1), unique=True))}
        del deps
        if "reconf" in mode and draw(st.booleans()):
            case["sel_early"] = True  # history: executor(sel) - reconfiguration - executor(sel) - run
    if len(sites) >= 3 and draw(st.sampled_from([True, False, False, False])):
        k = draw(st.integers(0, 2))
        ins = draw(st.lists(st.sampled_from(sites), min_size=k, max_size=k, unique=True))
        rest = [s for s in sites if s not in ins]
        case["compose"] = {"inputs": ins, "outputs": draw(st.lists(st.sampled_from(rest), min_size=1, max_size=3, unique=True))}
    if draw(st.sampled_from([True, False, False])):
        case["final_ops"] = [{"op": draw(st.sampled_from(["setup", "executor-setup"])),
                              "T": draw(st.one_of(st.none(), st.lists(st.sampled_from(sites), min_size=0, max_size=3, unique=True)))}
                             for _ in range(draw(st.integers(1, 2)))]
    return case


def strategy(tier: str) -> Any:
    return cases()


def small_scope_case(i: int) -> Dict[str, Any]:
    """i in [0, 16384): edge set (6 bits) x priorities in {-1,0,1,2}^4 (8 bits)."""
    pairs = [(a, b) for a in range(4) for b in range(a + 1, 4)]
    emask, pr = i % 64, i // 64
    prios = [(pr >> (2 * k) & 3) - 1 for k in range(4)]
    fns, body = {}, []
    for j in range(4):
        fns[f"n{j}"] = {"kind": "term", "res": "thread", "prio": prios[j]}
        args = [["v", f"v{a}"] for bit, (a, b) in enumerate(pairs) if b == j and emask >> bit & 1]
        body.append({"k": "call", "fn": f"n{j}", "site": gen.site(j), "mark": True, "args": args, "kwargs": {},
                     "active": None, "unpack": None, "tags": [], "out": f"v{j}"})
    return {"prog": {"name": "S", "params": [], "fns": fns, "body": body, "ret": ["T", [["v", f"v{j}"] for j in range(4)]]},
            "small": i}


def run_shard(H: Harness) -> None:
    _spawn_workers(H.seed)
    # phase 1: complete enumeration of the small scope, split over the shards; no time limit (it is finite)
    H.deadline += 10_000
    n = 0
    for i in range(H.shard, 64 * 256, H.nshards):
        c = small_scope_case(i)
        if H.tier == "quick":
            c["inproc"] = True  # quick: one process; thorough: all four hash seeds
        H.one(c)
        n += 1
    H.deadline -= 10_000
    H.phase_info["small_scope_cases"] = n
    H.phase_info["exhaustive"] = True
    H.phase_info["exhaustive_scope"] = "all 64 edge sets on 4 ordered nodes x priorities {-1,0,1,2}^4"
    # phase 2: random shapes (reconfiguration, selections, hash-seed workers); at least 40% of the budget even if the
    # enumeration was slow on a loaded machine
    import time as _time

    H.deadline = max(H.deadline, _time.monotonic() + 0.4 * (H.deadline - H.t0))
    H.run_hypothesis(strategy)
    _kill_workers()

MANIFEST = {
    "engine": "hashseed",
    "technique": "property-based testing: exhaustive small-scope enumeration + Hypothesis-generated DAG shapes, differential across PYTHONHASHSEED processes against a closed-form reference",
    "level_text": "Exploration. The compound-priority table of every generated DAG (all 16384 DAGs on 4 ordered nodes with priorities in {-1..2}, plus random shapes up to 10 nodes with diamonds/shared descendants) is compared with the harness's own definition, across 4 hash seeds, after config_from_dict and on executor sub-graphs; the max_concurrency=1 execution order is compared with the predicted unique order. A wrong accumulation, a lost table or a hash-seed dependence shows up as a concrete DAG; absence is shown only within these bounds.",
    "level_note": "Trusted: the harness's closed-form definition (own priority + distinct descendants, vlib/gen.py), networkx-free. Node ids resolved through get_nodes_by_tag. Hash seeds 0, 1, 17 and one derived from VERIF_SEED.",
}
