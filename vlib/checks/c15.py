"""C15 - calls do not leak state: a DAG (and an executor) behaves as if freshly built."""
from typing import Any, Dict, List

from hypothesis import strategies as st
from hypothesis.stateful import RuleBasedStateMachine, initialize, precondition, rule

from .. import gen, hist, prog, schedchecks as sc
from ..harness import CaseResult, Harness

PID = "C15"
LEVEL = "exploration"
RULE = (
    "stateful (Hypothesis RuleBasedStateMachine): one generated call-only program with a required parameter, two "
    "defaulted parameters, a 'bomb' node that raises iff it receives the sentinel, 0-2 setup sites, flags; rules = "
    "call(args) with any argument tuple (omitting defaulted arguments, omitting the required one -> must raise, "
    "sentinel -> must raise), create an executor with a T/X/R selection, run a stored executor (also a SECOND time, "
    "after a successful and after a failed run), compose(inputs, outputs) + call of the composed DAG, "
    "config_from_dict, deepcopy. oracle after every operation: the outcome equals the reference evaluation for that "
    "operation's own arguments (value and node entries), failing operations raise; a re-run executor either raises "
    "TawaziUsageError or produces the complete reference result for the new arguments. non-trivial = history of >= 3 "
    "operations containing a call that omits a defaulted argument after a call that supplied it, or any operation "
    "after a failed one."
    " Round 8-10 additions: programs that index a result / a DAG argument with a key it does not have (the run fails in the scheduler with a plain exception) followed by a re-run; composed DAGs called without a value for their last (node) input must refuse."
)
ASSUMPTIONS = [
    "node functions are pure; setup values are deterministic (a setup node re-run after a failed call is legitimate)",
    "one executor object is used from one thread",
]
BUDGET = {"quick": {"shards": 8, "seconds": 40}, "thorough": {"shards": 16, "seconds": 420}}
ARGPOOL = [0, 1, "a", None, {"T": [1, 2]}, "BOOM", {"D": {"a": 1}}]


@st.composite
def programs(draw: Any) -> Dict[str, Any]:
    # a fifth of the programs may index a result with a key it does not have: such a run fails in the scheduler, with
    # an exception that is not a node failure
    bad_ = 1 if gen.chance(draw, 0.2) else 0
    P = draw(gen.flat_prog(min_sites=3, max_sites=8, max_deps=3, resources=gen.RES, dep_kinds=("pos", "kw", "flag"),
                           n_setup=draw(st.integers(0, 2)), n_params=3, prio_range=(-1, 2), seq_rate=0.1,
                           mark_roots=False, index_rate=0.2 * bad_, bad_index_rate=0.25 * bad_))
    P["params"] = [["p0", None], ["p1", {"d": draw(st.sampled_from([5, "d1", None]))}], ["p2", {"d": draw(st.sampled_from([7, "d2"]))}]]
    for s in P["body"]:
        a = s.get("active")
        if a is not None and a[0] == "v":
            prod = [x for x in P["body"] if x["out"] == a[1]][0]
            f = P["fns"][prod["fn"]]
            if not f.get("setup") and f.get("kind") not in ("tup", "dict"):
                f["kind"] = "const"
                f["val"] = draw(st.sampled_from([0, 1, "", "x", None]))
    if bad_ and draw(st.booleans()):
        # data: a site reads p0["a"] - fine for a mapping, a TypeError raised by the scheduler (not by a node) for a
        # tuple, a string or None
        n0 = len(P["body"])
        P["fns"]["pick"] = {"kind": "term", "res": "thread"}
        P["body"].append({"k": "call", "fn": "pick", "site": gen.site(n0), "mark": True, "args": [["i", ["p", "p0"], "a"]],
                          "kwargs": {}, "active": None, "unpack": None, "tags": [], "out": f"v{n0}"})
        P["ret"][1].append(["v", f"v{n0}"])
    # the bomb: a site that receives p0 first
    n = len(P["body"])
    P["fns"]["bomb"] = {"kind": "bomb", "res": draw(st.sampled_from(list(gen.RES)))}
    P["body"].append({"k": "call", "fn": "bomb", "site": gen.site(n), "mark": False, "args": [["p", "p0"], ["p", "p1"]],
                      "kwargs": {"k": ["p", "p2"]}, "active": None, "unpack": None, "tags": [], "out": f"v{n}"})
    # something downstream of the bomb
    P["fns"]["after"] = {"kind": "term", "res": "thread"}
    P["body"].append({"k": "call", "fn": "after", "site": gen.site(n + 1), "mark": True, "args": [["v", f"v{n}"]],
                      "kwargs": {}, "active": None, "unpack": None, "tags": [], "out": f"v{n + 1}"})
    P["ret"][1].extend([["v", f"v{n}"], ["v", f"v{n + 1}"]])
    return P


def _nontrivial(ops: List[Dict[str, Any]], I: hist.Interp) -> bool:
    if len(ops) < 3:
        return False
    supplied = False
    for o in ops:
        if o["op"] in ("call", "exec", "runexec"):
            if len(o.get("args", [])) >= 2:
                supplied = True
            elif supplied and len(o.get("args", [])) >= 1:
                return True
    return I.stats["failed-ops"] > 0 and any(True for _ in ops[1:])


def _classify(case: Dict[str, Any], I: hist.Interp, res: CaseResult) -> None:
    res.nontrivial = _nontrivial(case["ops"], I)
    res.cls("async" if case.get("async") else "sync")
    for k in {o["op"] for o in case["ops"]}:
        res.cls("op-" + k)
    for k in ("failed-ops", "rerun-after-failure", "rerun-after-success", "cancelled-runs", "cache-write-failed", "composed-call-omits-node-input"):
        if I.stats[k]:
            res.cls(k)
    res.note = {"ops": len(case["ops"]), "failed_ops": I.stats["failed-ops"]}


def run_case(case: Dict[str, Any]) -> CaseResult:
    res = CaseResult()
    I = hist.Interp(case["prog"], bool(case.get("async")), mc=case.get("mc", 2), cumulative=False)
    res.evals = 0
    for op in case["ops"]:
        for b, m in I.apply(op):
            res.viol(b, m)
        res.evals += 1
        if res.violations:
            break
    I.cleanup()
    _classify(case, I, res)
    return res


def make_machine(H: Harness) -> Any:
    class LeakMachine(RuleBasedStateMachine):
        def __init__(self) -> None:
            super().__init__()
            self.I: Any = None
            self.case: Dict[str, Any] = {}
            self.failed = False

        @initialize(P=programs(), is_async=st.booleans(), mc=st.integers(1, 3))
        def init(self, P: Dict[str, Any], is_async: bool, mc: int) -> None:
            self.case = {"prog": P, "async": is_async, "mc": mc, "ops": []}
            self.I = hist.Interp(P, is_async, mc=mc, cumulative=False)

        def do(self, op: Dict[str, Any]) -> None:
            self.case["ops"].append(op)
            found = H.guarded_apply(self.I.apply, op)
            if found:
                self.failed = True
                res = CaseResult()
                for b, m in found:
                    res.viol(b, m)
                res.evals = len(self.case["ops"])
                H.record({k: (list(v) if k == "ops" else v) for k, v in self.case.items()}, res, raise_on_violation=True)

        def _inst(self, data: Any) -> int:
            return data.draw(st.integers(0, len(self.I.insts) - 1))

        def _args(self, data: Any) -> List[Any]:
            n = data.draw(st.sampled_from([0, 1, 1, 1, 2, 2, 3]))
            return [data.draw(st.sampled_from(ARGPOOL)) for _ in range(n)]

        @rule(data=st.data())
        def call(self, data: Any) -> None:
            self.do({"op": "call", "inst": self._inst(data), "args": self._args(data)})

        @precondition(lambda self: self.I is not None and len(self.I.execs) < 4)
        @rule(data=st.data())
        def mkexec(self, data: Any) -> None:
            sel = data.draw(st.one_of(st.none(), sc.selection_strategy(self.case["prog"])))
            self.do({"op": "mkexec", "inst": self._inst(data), "sel": sel, "bad_cache": data.draw(st.sampled_from([False, False, False, True]))})

        @precondition(lambda self: self.I is not None and len(self.I.execs) > 0)
        @rule(data=st.data())
        def runexec(self, data: Any) -> None:
            k = data.draw(st.integers(0, len(self.I.execs) - 1))
            self.do({"op": "runexec", "e": k, "args": self._args(data)})

        @precondition(lambda self: self.I is not None and self.I.is_async and any(r["runs"] == 0 for r in self.I.execs))
        @rule(data=st.data())
        def cancelrun(self, data: Any) -> None:
            # the first await of an executor is cancelled half-way; what the executor does when awaited again is
            # judged by the re-run rule (refuse, or run everything from scratch)
            fresh = [k for k, r in enumerate(self.I.execs) if r["runs"] == 0]
            self.do({"op": "cancelrun", "e": data.draw(st.sampled_from(fresh)), "args": self._args(data)})

        @rule(data=st.data())
        def compose(self, data: Any) -> None:
            sites = self.I.M.sites
            # setup sites are not offered as inputs: a setup node fed by a DAG input is rejected by tawazi's own rules
            M_ = self.I.M
            cand = [s for s in sites if not M_.spec[s].get("setup")]
            ins = data.draw(st.lists(st.sampled_from(cand + ["p0", "p1"]), min_size=0, max_size=2, unique=True))
            # ... except as the LAST input when no other setup node depends on it
            lone = [s for s in sites if M_.spec[s].get("setup") and not any(M_.spec[d].get("setup") for d in M_.desc[s])
                    and not any(s in M_.anc[i_] or i_ in M_.anc[s] for i_ in ins if i_ in sites)]
            if lone and len(ins) < 2 and data.draw(st.booleans()):
                ins = ins + [data.draw(st.sampled_from(lone))]
            outs = data.draw(st.lists(st.sampled_from([s for s in sites if s not in ins]), min_size=1, max_size=2, unique=True))
            vals = [data.draw(st.sampled_from([0, 1, "w", None])) for _ in ins]
            op = {"op": "compose", "inst": self._inst(data), "inputs": ins, "outputs": outs, "vals": vals}
            if ins and ins[-1] in sites and data.draw(st.booleans()):
                op["omit"] = True  # the composed DAG is called without a value for its last input
            self.do(op)

        @rule(data=st.data())
        def config(self, data: Any) -> None:
            sites = self.I.M.sites
            some = data.draw(st.lists(st.sampled_from(sites), min_size=1, max_size=3, unique=True))
            conf = {s: {"priority": data.draw(st.integers(-2, 3)), "is_sequential": data.draw(st.booleans())} for s in some}
            self.do({"op": "config", "inst": self._inst(data), "conf": conf, "mc": data.draw(st.sampled_from([None, 1, 2, 4]))})

        @rule(data=st.data())
        def draw(self, data: Any) -> None:
            # drawing the graph is a read-only operation
            self.do({"op": "draw", "inst": self._inst(data), "include_args": data.draw(st.booleans())})

        @precondition(lambda self: self.I is not None and len(self.I.insts) < 3)
        @rule(data=st.data())
        def deepcopy(self, data: Any) -> None:
            self.do({"op": "copy", "inst": self._inst(data)})

        def teardown(self) -> None:
            if self.I is not None:
                self.I.cleanup()
            if self.I is not None and not self.failed and self.case.get("ops"):
                res = CaseResult()
                res.evals = len(self.case["ops"])
                _classify(self.case, self.I, res)
                H.record(self.case, res)

    return LeakMachine


def run_shard(H: Harness) -> None:
    H.run_machine(lambda: make_machine(H), batch=25, steps=20)


MANIFEST = {
    "engine": "hist",
    "technique": "stateful property-based testing: Hypothesis rule-based state machine over call / executor (re-)run / compose / config / deepcopy / failing-call histories, every operation compared with the reference evaluation for its own arguments",
    "level_text": "Exploration of histories (<= 20 operations, <= 3 instances, <= 4 executors): since each operation's expected outcome is computed from its own arguments only, any dependence on earlier calls, executors, composed DAGs or failed calls is a shrunk operation log; re-running an executor must either be refused or be complete.",
    "level_note": "Trusted: interpreter/model in vlib/hist.py, compose reference in vlib/composeref.py, reference evaluator.",
}
