"""C08 - the scheduler never idles while a ready node and a free slot both exist."""
from typing import Any, Dict, List

from .. import schedchecks as sc
from ..harness import CaseResult, Harness
from ..schedcase import Model

PID = "C08"
LEVEL = "exploration"
ORACLES = ("no_idle", "values", "no_internal_error")
RULE = (
    "cases = wide call-only DAG programs (3-9 sites), priorities, sequential flags, max_concurrency 1..4, both "
    "flavours; resource mixes: 50% pure-kind (thread+main or async-thread+main) and 50% mixed; controlled schedules "
    "only (sampled and exhaustive choice trees). oracle: at every truly blocking wait call of the scheduler (no "
    "awaited future already done): in-flight == max_concurrency, or no un-dispatched node is ready, or a sequential "
    "node is in flight, or a maximal-priority ready node is sequential; waits with a zero timeout (polls) never block and are not judged. The former known exception (blocking thread-kind wait "
    "directly after an async-kind wait with no dispatch in between, repaired by fix 8f7c4c9) is an ordinary violation (rule idle-K1) now. "
    "non-trivial = the case has >= 1 blocking wait with a free slot (justified) and >= 1 with in-flight == max_concurrency."
    " Round 8-10 additions: unusable configuration entries (a refused configuration must not change the limit to a third value); environment axes."
)
ASSUMPTIONS = [
    "in-flight and ready are the scheduler's knowledge: dispatched minus observed-done, dependencies observed done",
    "a quarter of the programs have activation flags; a wait is left unjudged (counted) only when a node downstream of a deactivated node is sequential (it could be the best candidate)",
]
BUDGET = {"quick": {"shards": 8, "seconds": 40}, "thorough": {"shards": 16, "seconds": 420}}


def _nt(case: Dict[str, Any], M: Model, stats: List[Dict[str, Any]]) -> bool:
    full = sum(s.get("waits_full", 0) for s in stats)
    free = sum(s.get("waits_nothing_ready", 0) + s.get("waits_seq_running", 0) + s.get("waits_seq_candidate", 0) for s in stats)
    return full >= 1 and free >= 1


def run_case(case: Dict[str, Any]) -> CaseResult:
    return sc.evaluate(case, ORACLES, _nt)


def strategy(tier: str) -> Any:
    return sc.sched_case(tier=tier, modes=("ctl", "ctl", "ctl-ex"), min_sites=3, max_sites=9, wide=True,
                         seq_rate=0.12, prio=(-2, 4), pure_kind_rate=0.5, max_mc=4, flag_rate=0.35, config_rate=0.2,
                         n_setup=2, setup_call_rate=0.1)


def run_shard(H: Harness) -> None:
    if H.tier == "thorough":
        sc.run_small_scope(H, ("seq",))
    H.run_hypothesis(strategy)


MANIFEST = {
    "engine": "sched",
    "technique": "property-based testing with controlled schedules: every wait call of the real scheduler is intercepted and judged against a ready-set / in-flight model",
    "level_text": "Exploration. Every blocking wait of the scheduler is intercepted, so the no-idle predicate is evaluated at exactly the points where the scheduler idles; completion orders are sampled or enumerated. Every unjustified wait is a violation (the formerly known class K1 - one wait per kind with both kinds in flight - was repaired in the repository and its witness is part of the regression corpus).",
    "level_note": "Thorough tier additionally enumerates a complete small scope (every DAG on 4 ordered nodes x the property's own dimension - priorities / sequential subsets / failing node - with the whole completion-order tree of each). Trusted: interposed wait primitives and the knowledge model; mixed-kind DAGs are judged like all others.",
}
