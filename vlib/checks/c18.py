"""C18 - an execution restarted from a cache file reuses, not recomputes, cached results."""
import asyncio
import os
import pickle
import tempfile
from collections import Counter
from typing import Any, Dict, List, Optional

from hypothesis import strategies as st

from .. import gen, prog, sched
from ..harness import CaseResult, Harness
from ..schedcase import Model, selection

PID = "C18"
LEVEL = "exploration"
RULE = (
    "cases = call-only DAG programs (3-8 sites, picklable values incl. functions returning None / falsy constants, optional DAG parameter) x caching run in {whole DAG, "
    "target_nodes=T, cache_deps_of=[n...]} writing cache_in to a temp file x restart run (a freshly built DAG) in "
    "{whole DAG, same selection, cache_deps_of again} with from_cache; half of the cases run a SECOND round that rewrites "
    "the same file path with other arguments / another selection and restarts from it again. oracle: caching run == reference; pickle keys "
    "for cache_deps_of=[n] contain every site n depends on and not n; in the restart ZERO entries of any site whose id "
    "is a key of the pickle, every other selected site entered once; restart value == reference (== caching run's "
    "value on shared outputs); restart with cache_deps_of=[n] enters exactly n. non-trivial = the file holds at "
    "least one and not all function sites."
    " Round 8-9 additions: restart called with other arguments than the caching run (sites flagged by a DAG parameter are re-decided); a result that cannot be pickled (a caching run that raises promises nothing)."
)
ASSUMPTIONS = ["the restart uses the same program and the same arguments as the caching run, or (defaulted parameter) no arguments: the inputs of the caching run are in the file"]
BUDGET = {"quick": {"shards": 8, "seconds": 40}, "thorough": {"shards": 16, "seconds": 420}}


def _executor(b: prog.Built, ids: Dict[str, str], mode: str, sel: Optional[List[str]], **kw: Any) -> Any:
    if mode == "whole":
        return b.dag.executor(**kw)
    if mode == "target":
        return b.dag.executor(target_nodes=[ids[s] for s in sel or []], **kw)
    return b.dag.executor(cache_deps_of=[ids[s] for s in sel or []], **kw)


def run_case(case: Dict[str, Any]) -> CaseResult:
    """One or two (caching run, restart run) rounds on the SAME cache file path (a later round rewrites it)."""
    fd, path = tempfile.mkstemp(suffix=".pkl", prefix="vlib_cache_")
    os.close(fd)
    os.remove(path)
    total = CaseResult()
    total.evals = 0
    try:
        rounds = [case] + [dict(case, **r) for r in case.get("more_rounds", [])]
        for i, rc in enumerate(rounds):
            if os.path.exists(path):
                os.remove(path)
            res = _round(rc, path)
            total.evals += res.evals
            total.nontrivial = total.nontrivial or res.nontrivial
            total.classes.extend(res.classes)
            total.note = res.note
            for v in res.violations:
                total.viol(v.bucket if i == 0 else v.bucket + "-in-later-round", f"[round {i}] " + v.msg, v.key)
            if total.violations:
                break
        if len(rounds) > 1:
            total.cls("two-rounds-same-file")
        return total
    finally:
        if os.path.exists(path):
            os.remove(path)


def _round(case: Dict[str, Any], path: str) -> CaseResult:
    res = CaseResult()
    P = case["prog"]
    args = [prog.dec(a) for a in case.get("args", [])]
    M = Model({"prog": P, "mc": case.get("mc", 2)})
    try:
        # ---- caching run
        is_async = bool(case.get("async"))
        b1 = prog.build(P, is_async=is_async, mc=case.get("mc", 2))
        ids = b1.node_ids()
        site_of_id = {v: k for k, v in ids.items()}
        cmode, csel = case["cache_mode"], case.get("cache_sel")
        sel1 = selection(M, {"T": csel}) if cmode in ("target", "deps_of") else None
        ex1 = sched.Exec("free")
        try:
            e1 = _executor(b1, ids, cmode, csel, cache_in=path)
            with ex1:
                v1 = asyncio.run(e1(*args)) if is_async else e1(*args)
        except BaseException as e:  # noqa: BLE001
            if isinstance(e, KeyboardInterrupt):
                raise
            if any(f.get("kind") == "nopickle" for f in P["fns"].values()) and not isinstance(e, sched.HarnessSignal):
                # a result cannot be pickled: a caching run that fails promises nothing (one that returns does)
                res.cls("caching-run-refused-unpicklable-result")
                if os.path.exists(path):
                    os.remove(path)
                return res
            res.viol("caching-run-raised", f"caching run ({cmode}, {csel}) raised {type(e).__name__}: {str(e)[:300]}")
            return res
        R1 = prog.Ref(selected=sel1)
        rv1 = prog.ref_run(P, args, R1)
        if v1 != rv1:
            res.viol("caching-run-value", f"caching run returned {v1!r}, reference {rv1!r}")
        if not os.path.exists(path):
            res.viol("no-cache-file", "cache_in was given but no file was written")
            return res
        with open(path, "rb") as f:
            cached = pickle.load(f)  # noqa: S301
        cached_sites = {site_of_id[k] for k in cached if k in site_of_id}
        if cmode == "deps_of":
            want = set()
            for n in csel or []:
                want |= M.anc[n]
            want -= set(csel or [])
            if not want <= cached_sites:
                res.viol("deps-not-cached", f"cache_deps_of={csel}: dependencies {sorted(want - cached_sites)} are not in the file")
            if set(csel or []) & cached_sites:
                res.viol("deps-of-node-cached", f"cache_deps_of={csel}: the file contains {sorted(set(csel or []) & cached_sites)} itself")
        else:
            exp_cached = set(R1.executed) | set(R1.skipped)  # (a deactivated node has a result too: None)
            if cached_sites != exp_cached:
                res.viol("cache-contents", f"file holds sites {sorted(cached_sites)}, executed were {sorted(exp_cached)}")
        # ---- restart run on a freshly built DAG - or on the SAME instance after a plain call in between (every setup
        # node of the instance has then been computed and must not run again, whatever the file holds)
        on_instance: Dict[str, Any] = {}
        if case.get("same_instance"):
            b2 = b1
            try:
                with sched.Exec("free"):
                    _ = asyncio.run(b1.dag(*args)) if is_async else b1.dag(*args)
            except BaseException as e:  # noqa: BLE001
                if isinstance(e, KeyboardInterrupt):
                    raise
                res.viol("plain-call-raised", f"a plain call between caching run and restart raised {type(e).__name__}: {str(e)[:200]}")
                return res
            Rf = prog.Ref()
            prog.ref_run(P, args, Rf)
            on_instance = {s: Rf.values[s] for s in M.sites if M.spec[s].get("setup")}
            res.cls("restart-on-the-same-instance")
        else:
            b2 = prog.build(P, is_async=is_async, mc=case.get("mc", 2))
        rmode = case["restart_mode"]
        rsel = csel if rmode in ("target", "deps_of") else None
        sel2 = selection(M, {"T": rsel}) if rmode in ("target", "deps_of") else None
        ex2 = sched.Exec("free")
        try:
            e2 = _executor(b2, b2.node_ids(), rmode, rsel, from_cache=path)
            # the restart may omit the arguments: the inputs of the caching run are in the file
            args2 = [] if case.get("restart_omits_args") else args
            if case.get("restart_args") is not None:
                # the restart is called with OTHER argument values: what is in the file stays as it is, everything
                # that runs now (and every twz_active=<parameter> decided now) sees the values of this call
                args2 = [prog.dec(a) for a in case["restart_args"]]
                res.cls("restart-with-other-arguments")
            with ex2:
                v2 = asyncio.run(e2(*args2)) if is_async else e2(*args2)
        except BaseException as e:  # noqa: BLE001
            if isinstance(e, KeyboardInterrupt):
                raise
            res.viol("restart-raised", f"restart ({rmode}, {rsel}) from the cache of ({cmode}, {csel}) raised {type(e).__name__}: {str(e)[:300]}")
            return res
        entered = Counter(M.site_of_key.get(e["site"], e["site"]) for e in ex2.events if e["k"] == "ENTER")
        again = sorted(s for s in entered if s in cached_sites)
        tag = f" [cache: {cmode} {csel}; restart: {rmode} {rsel}]"
        if again:
            res.viol("cached-node-recomputed", f"the restart executed {again} although their results are in the cache file" + tag)
        R2 = prog.Ref(selected=sel2, pre=dict(on_instance, **{s: R1.values[s] for s in cached_sites}))
        rv2 = prog.ref_run(P, args2 if case.get("restart_args") is not None else args, R2)
        want_entered = Counter(R2.executed)
        if not again and entered != want_entered:
            res.viol("restart-entries", f"the restart entered {sorted(entered.items())}, expected {sorted(want_entered.items())}" + tag)
        if v2 != rv2:
            res.viol("restart-value", f"the restart returned {v2!r}, reference {rv2!r}" + tag)
        setup_known = {s for s in M.sites if M.spec[s].get("setup") and (s in cached_sites or s in R2.executed or s in on_instance)}
        if setup_known and not res.violations:
            # a setup node whose result the restart took from the file (or computed) is set up for this instance:
            # a plain call afterwards does not run it again
            ex3 = sched.Exec("free")
            try:
                with ex3:
                    _ = asyncio.run(b2.dag(*args)) if is_async else b2.dag(*args)
                again3 = sorted({M.site_of_key.get(e["site"], e["site"]) for e in ex3.events if e["k"] == "ENTER"} & setup_known)
                if again3:
                    res.viol("setup-rerun-after-restart", f"a plain call after the restart executed the setup nodes {again3} again (their results were in the cache file / computed by the restart)" + tag)
            except BaseException as e:  # noqa: BLE001
                if isinstance(e, KeyboardInterrupt):
                    raise
                res.viol("call-after-restart-raised", f"a plain call after the restart raised {type(e).__name__}: {str(e)[:200]}" + tag)
            res.cls("plain-call-after-restart")
        res.evals = 2
        nfn = len(M.sites)
        res.nontrivial = 0 < len(cached_sites) < nfn
        res.cls("cache-" + cmode, "restart-" + rmode, "async" if is_async else "sync")
        res.note = {"cached_sites": sorted(cached_sites), "restart_entered": sorted(entered)}
        return res
    finally:
        pass


@st.composite
def cases(draw: Any, tier: str) -> Dict[str, Any]:
    npar = draw(st.integers(0, 1))
    P = draw(gen.flat_prog(min_sites=3, max_sites=8, max_deps=3, resources=gen.RES, dep_kinds=("pos", "kw"),
                           n_params=npar, prio_range=(-1, 2), none_rate=0.2, short_name_rate=0.3, n_setup=draw(st.integers(0, 2))))
    sites = [s["site"] for s in P["body"]]
    if gen.chance(draw, 0.08):
        # fault at a point: one result cannot be pickled when the caching run writes its file
        cand_ = [f for f in P["fns"].values() if f.get("kind") == "term" and not f.get("setup") and not f.get("stamp")]
        if cand_:
            draw(st.sampled_from(cand_))["kind"] = "nopickle"
    case: Dict[str, Any] = {"prog": P, "mc": draw(st.integers(1, 3)), "async": draw(st.booleans()), "args": [draw(st.sampled_from([0, 1, "a"])) for _ in range(npar)]}
    case["cache_mode"] = draw(st.sampled_from(["whole", "target", "target", "deps_of", "deps_of"]))
    if case["cache_mode"] != "whole":
        case["cache_sel"] = draw(st.lists(st.sampled_from(sites), min_size=1, max_size=2, unique=True))
    if npar and draw(st.booleans()):
        # the parameter has a default, the caching run overrides it, the restart passes nothing
        P["params"] = [[P["params"][0][0], {"d": draw(st.sampled_from([7, "dflt"]))}]]
        case["restart_omits_args"] = True
    elif npar and draw(st.booleans()):
        case["restart_args"] = [draw(st.sampled_from([0, 1, "a", "", 2]))]
        cand = [b for b in P["body"] if b.get("active") is None and not P["fns"][b["fn"]].get("setup") and not P["fns"][b["fn"]].get("pair")]
        if cand and draw(st.booleans()):
            draw(st.sampled_from(cand))["active"] = ["p", P["params"][0][0]]  # a site flagged by the DAG's parameter
    if case["cache_mode"] == "deps_of":
        case["restart_mode"] = draw(st.sampled_from(["whole", "deps_of", "deps_of"]))
    elif case["cache_mode"] == "target":
        case["restart_mode"] = draw(st.sampled_from(["whole", "target"]))
    else:
        case["restart_mode"] = "whole"
    if draw(st.sampled_from([True, False, False])):
        case["same_instance"] = True  # the restart runs on the instance of the caching run, after a plain call
    if draw(st.booleans()):
        # a second round that rewrites the same file with other arguments / another selection
        r2: Dict[str, Any] = {"args": [draw(st.sampled_from([2, 3, "b"])) for _ in range(npar)]}
        r2["cache_mode"] = draw(st.sampled_from(["whole", "target", "deps_of"]))
        if r2["cache_mode"] != "whole":
            r2["cache_sel"] = draw(st.lists(st.sampled_from(sites), min_size=1, max_size=2, unique=True))
        else:
            r2["cache_sel"] = None
        r2["restart_mode"] = "whole" if r2["cache_mode"] == "whole" else draw(st.sampled_from(["whole", r2["cache_mode"]]))
        case["more_rounds"] = [r2]
    return case


def strategy(tier: str) -> Any:
    return cases(tier)


def run_shard(H: Harness) -> None:
    H.run_hypothesis(strategy)


MANIFEST = {
    "engine": "prog",
    "technique": "property-based testing over (caching run, restart run) pairs on generated DAGs: pickle-content predicates, node-entry counters during the restart, reference evaluator",
    "level_text": "Exploration over programs x caching selection x restart mode. Node entries during the restart show exactly what was recomputed; the pickle is inspected directly; values are compared with the reference.",
    "level_note": "Trusted: reference evaluator, entry trace; cache files are temp files removed after each case.",
}
