"""C05 - a sequential node never overlaps any other node of its execution."""
from typing import Any, Dict, List

from .. import schedchecks as sc
from ..harness import CaseResult, Harness
from ..schedcase import Model

PID = "C05"
LEVEL = "exploration"
ORACLES = ("seq_isolation", "values", "no_internal_error")
RULE = (
    "cases = call-only DAG programs with ~35% of the functions marked is_sequential (decorator or config_from_dict), "
    "a quarter of the cases executed through executor(target/exclude/root), all three resources for sequential and non-sequential nodes, max_concurrency 1..5, both flavours; schedules: "
    "controlled / exhaustive choice tree / free. oracle: between ENTER and EXIT of a sequential node no other node of "
    "the execution ENTERs or is inside its function. Under gates an overlap cannot be missed: a wrongly dispatched "
    "node is still inside its function. non-trivial = at some scheduler wait a sequential node was ready while "
    "another node was in flight, or a node was ready while a sequential node was in flight."
    " Round 8-10 additions: pool-spawn fault; executor created before is_sequential is reconfigured; activation flags (truthy values that are not True); unusable configuration entries; environment axes as in C04."
)
ASSUMPTIONS = ["entry/exit of every node function is recorded under one lock with a global sequence number"]
BUDGET = {"quick": {"shards": 8, "seconds": 40}, "thorough": {"shards": 16, "seconds": 420}}


def _nt(case: Dict[str, Any], M: Model, stats: List[Dict[str, Any]]) -> bool:
    return any(s["seq_pressure"] for s in stats)


def run_case(case: Dict[str, Any]) -> CaseResult:
    return sc.evaluate(case, ORACLES, _nt)


def strategy(tier: str) -> Any:
    return sc.sched_case(tier=tier, modes=("ctl", "ctl", "free", "ctl-ex"), min_sites=3, max_sites=9, wide=True,
                         seq_rate=0.35, prio=(-2, 4), config_rate=0.15, max_mc=4, sel_rate=0.25,
                         spawn_fail_rate=0.1, flag_rate=0.3)


def run_shard(H: Harness) -> None:
    if H.tier == "thorough":
        sc.run_small_scope(H, ("seq",), flavours=(False, True))
    H.run_hypothesis(strategy)


MANIFEST = {
    "engine": "sched",
    "technique": "property-based testing with controlled schedules: generated DAGs with sequential nodes of every resource, interval-overlap predicate over the event trace",
    "level_text": "Exploration of shapes x sequential subsets x resources x completion orders; controlled schedules hold any wrongly co-dispatched node inside its function so the overlap is observed deterministically; small cases enumerate every completion order.",
    "level_note": "Thorough tier additionally enumerates a complete small scope (every DAG on 4 ordered nodes x the property's own dimension - priorities / sequential subsets / failing node - with the whole completion-order tree of each). Trusted: the event trace (one lock, global sequence numbers) and the gates.",
}
