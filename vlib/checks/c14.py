"""C14 - a failing node fails the call, names itself, and starts nothing downstream."""
from typing import Any, Dict, List

from hypothesis import strategies as st

from .. import schedchecks as sc
from ..harness import CaseResult, Harness
from ..schedcase import Model

PID = "C14"
LEVEL = "fault_enumeration"
ORACLES = ("failure", "termination")
RULE = (
    "cases = call-only DAG programs (2-9 sites, three resources, sequential flags, max_concurrency 1..4, both "
    "flavours) x 0-2 failing sites (each raises a unique InjectedError instance when released) x completion order "
    "(controlled / exhaustive tree / free; a quarter of the failing nodes run inline as the last choice among the ready nodes) x {call location known, inspect.currentframe patched to None at build}. "
    "oracle: the call raises; the exception is a TawaziBaseException whose message contains the failing node's id and "
    "a file:line of the describing interpreter and whose __cause__ is the injected instance (without location: the "
    "injected instance itself); it names one of the nodes that actually failed; no descendant of a failed node is "
    "ever entered (checked after all gates are opened and the pool drained); no pool submit / task creation / inline "
    "entry after the wait that handed the failed future to the scheduler; with no failing node the call does not "
    "raise. non-trivial = a failing node ran, has >= 1 descendant, and >= 1 other node was inside its function when it failed."
    " Round 8-10 additions: failing debug sites (flag on); half of the injected failures are raised `from` a low-level exception (the cause carried by tawazi's exception must be the node's exception); warnings as errors."
)
ASSUMPTIONS = ["failures are Exception subclasses (tawazi's own errors derive from BaseException on purpose)"]
BUDGET = {"quick": {"shards": 8, "seconds": 40}, "thorough": {"shards": 16, "seconds": 420}}


def _nt(case: Dict[str, Any], M: Model, stats: List[Dict[str, Any]]) -> bool:
    for s in stats:
        if s["failed_ran"] and any(M.desc[f] for f in s["failed_ran"]) and s["siblings_at_failure"] >= 1:
            return True
    return False


def _opfail(case: Dict[str, Any]) -> CaseResult:
    """The failing node is one of tawazi's own operator nodes (`x / 0`, `x % 0`, `x // 0` written in the describing
    function): it fails the call like any other node - named, located at the line of the describing function where
    the operator was written, the ZeroDivisionError as the cause - and nothing downstream of it runs."""
    import asyncio

    from tawazi.errors import TawaziBaseException

    from .. import prog, sched

    res = CaseResult()
    P = case["prog"]
    res.nontrivial = True
    res.cls("operator-node-fails")
    try:
        b = prog.build(P, is_async=bool(case.get("async")), mc=case.get("mc", 2))
    except BaseException as e:  # noqa: BLE001
        res.viol("build-error", f"building raised {type(e).__name__}: {e}")
        return res
    ex = sched.Exec("free")
    exc = None
    try:
        with ex:
            if case.get("async"):
                asyncio.run(b.dag())
            else:
                b.dag()
    except BaseException as e:  # noqa: BLE001
        if isinstance(e, (KeyboardInterrupt, sched.HarnessSignal)):
            raise
        exc = e
    tag = f" [operator {case['op']} by zero, async={case.get('async')} mc={case.get('mc')}]"
    if exc is None:
        res.viol("failure-swallowed", "the operator node divides by zero but the call returned" + tag)
        return res
    if not isinstance(exc, TawaziBaseException):
        res.viol("failure-wrong-type", f"the call raised {type(exc).__name__}: {exc}" + tag)
    elif not isinstance(exc.__cause__, ZeroDivisionError):
        res.viol("failure-wrong-exception", f"__cause__ is {exc.__cause__!r}, not the ZeroDivisionError of the operator" + tag)
    else:
        msg = str(exc)
        if case["op"] not in msg:
            res.viol("failure-no-id", f"message {msg!r} does not name the operator node" + tag)
        if "prog.py:" not in msg:
            res.viol("failure-no-location", f"message {msg!r} does not point at the line of the describing function where the operator was written" + tag)
    entered = {e["site"] for e in ex.events if e["k"] == "ENTER"}
    late = entered & set(case["downstream"])
    if late:
        res.viol("failure-descendant-ran", f"{sorted(late)} depend on the failed operator node but were started" + tag)
    return res


def _setup_retry(case: Dict[str, Any]) -> CaseResult:
    """dag.setup() fails because one setup node raises while a sibling setup node is still running (the controller
    releases the failing one first); afterwards setup() is retried with nothing failing and the DAG is called.  The
    first setup() must fail like any call (C14's shape), the retry and the call raise nothing - a failed run leaves
    nothing behind that could trip a later one."""
    import asyncio

    from .. import oracle, prog, sched
    from ..schedcase import Model, execute

    res = CaseResult()
    res.cls("setup-fails-then-retried")
    c1 = dict(case, call="setup", sel=None)
    M = Model(c1)
    out = execute(c1, M)
    res.evals = 1
    if out.build_exc is not None:
        res.viol("build-error", f"building raised {type(out.build_exc).__name__}: {out.build_exc}")
        return res
    T = oracle.Trace(M, out)
    for r, m, k in oracle.failure(T, c1):
        res.viol(r, m + " [first setup()]", k)
    failed_ran = [s for s in case["failing"] if any(not x["ok"] for x in T.exit.get(s, []))]
    if not failed_ran or res.violations:
        return res
    res.nontrivial = True
    b = out.built
    # give the abandoned siblings of the failed run the time to finish (their gates were opened when the run ended)
    is_async = bool(case.get("async"))
    for what, fn in (("retried setup()", lambda: b.dag.setup()), ("call after the retried setup()", lambda: b.dag())):
        ex = sched.Exec("free")
        try:
            with ex:
                r_ = fn()
                val = asyncio.run(r_) if asyncio.iscoroutine(r_) else r_
        except BaseException as e:  # noqa: BLE001
            if isinstance(e, (KeyboardInterrupt, sched.HarnessSignal)):
                raise
            res.viol("internal-error", f"the {what} raised {type(e).__name__}: {str(e)[:300]} although no node failed in it [after a setup() that failed on {failed_ran}]")
            return res
        res.evals += 1
    want = prog.ref_run(case["prog"], [], prog.Ref())
    if val != want:
        res.viol("value", f"the call after the retried setup() returned {val!r}, reference {want!r}")
    return res


def _setup_retry_overlap(case: Dict[str, Any]) -> CaseResult:
    """Like _setup_retry, but the sibling of the failing setup node is STILL RUNNING when setup() is retried (it waits
    for an event that is set only once the retry has entered the same node): the abandoned execution and the retry
    finish side by side.  The retry must not raise: an execution that has failed is over, whatever its leftovers do."""
    import asyncio
    import threading
    import time

    from .. import prog, sched

    res = CaseResult()
    res.cls("setup-fails-then-retried", "retry-overlaps-the-abandoned-run")
    res.nontrivial = True
    r1, r2 = case["res"]

    def call(fn: str, i: int, args: Any, mark: bool = True) -> Dict[str, Any]:
        return {"k": "call", "fn": fn, "site": f"@s{i}", "mark": mark, "args": args, "kwargs": {}, "active": None,
                "unpack": None, "tags": [], "out": f"v{i}"}

    P = {"name": "P", "params": [], "ret": ["T", [["v", "v1"], ["v", "v2"]]],
         "fns": {"f": {"kind": "term", "res": r1, "setup": True, "prio": 5}, "w": {"kind": "waitev", "res": r2, "setup": True},
                 "u": {"kind": "term", "res": "thread"}},
         "body": [call("f", 0, []), call("w", 1, []), call("u", 2, [["v", "v1"]])]}
    is_async = bool(case.get("async"))
    b = prog.build(P, is_async=is_async, mc=case.get("mc", 2))
    prog.LIVE.clear()
    prog.LIVE.update(event=threading.Event(), timeout=10.0, timed_out=False)

    def run(fn: Any, ex: sched.Exec) -> Any:
        with ex:
            r_ = fn()
            return asyncio.run(r_) if asyncio.iscoroutine(r_) else r_

    ex1 = sched.Exec("free", failing=["@s0"], watchdog=False, drain=False)  # the waiting node outlives this run on purpose
    try:
        run(lambda: b.dag.setup(), ex1)
        res.viol("failure-swallowed", "setup() returned although a setup node raised")
        prog.LIVE["event"].set()
        return res
    except BaseException as e:  # noqa: BLE001
        if isinstance(e, (KeyboardInterrupt, sched.HarnessSignal)):
            raise
    out: Dict[str, Any] = {}
    ex2 = sched.Exec("free", watchdog=False)

    def retry() -> None:
        try:
            out["value"] = run(lambda: b.dag.setup(), ex2)
        except BaseException as e:  # noqa: BLE001
            out["exc"] = e

    th = threading.Thread(target=retry, daemon=True)
    th.start()
    end = time.monotonic() + 5.0
    while time.monotonic() < end and not any(e["k"] == "ENTER" and e["site"] == "@s1" for e in ex2.events) and th.is_alive():
        time.sleep(0.002)
    prog.LIVE["event"].set()  # both executions of the waiting node (abandoned run, retry) may finish now
    th.join(20)
    res.evals = 2
    if th.is_alive():
        res.inconclusive = "retry-did-not-finish"
        return res
    if "exc" in out:
        e = out["exc"]
        res.viol("internal-error", f"the retried setup() raised {type(e).__name__}: {str(e)[:300]} although no node failed in it (the first setup() had failed on another node while this one was still running)")
        return res
    try:
        val = run(lambda: b.dag(), sched.Exec("free", watchdog=False))
    except BaseException as e:  # noqa: BLE001
        if isinstance(e, (KeyboardInterrupt, sched.HarnessSignal)):
            raise
        res.viol("internal-error", f"the call after the retried setup() raised {type(e).__name__}: {str(e)[:300]}")
        return res
    if not (isinstance(val, tuple) and len(val) == 2 and val[0] == ("waitev", True)):
        res.viol("value", f"the call after the retried setup() returned {val!r}")
    return res


def run_case(case: Dict[str, Any]) -> CaseResult:
    if case.get("family") == "setup-retry-overlap":
        return _setup_retry_overlap(case)
    if case.get("family") == "opfail":
        return _opfail(case)
    if case.get("family") == "setup-retry":
        return _setup_retry(case)
    return sc.evaluate(case, ORACLES, _nt)


@st.composite
def _fan(draw: Any, tier: str) -> Dict[str, Any]:
    """Independent roots, each with a chain below it; one or two roots / inner nodes fail while their siblings
    are in flight (max_concurrency >= 2)."""
    from .. import gen

    k = draw(st.integers(2, 4))
    depth = draw(st.integers(1, 2))
    fns: Dict[str, Any] = {}
    body = []
    sites = []
    n = 0
    for i in range(k):
        prev = None
        for d in range(depth + 1):
            fn = f"f{n}"
            fns[fn] = {"kind": "term", "res": draw(st.sampled_from(list(gen.RES if d else ("thread", "async-thread")))),
                       "prio": draw(st.integers(-2, 3))}
            if draw(st.integers(0, 7)) == 0:
                fns[fn]["seq"] = True
            args = [] if prev is None else [["v", prev]]
            body.append({"k": "call", "fn": fn, "site": gen.site(n), "mark": True, "args": args, "kwargs": {},
                         "active": None, "unpack": None, "tags": [], "out": f"v{n}"})
            sites.append((gen.site(n), d))
            prev = f"v{n}"
            n += 1
    P = {"name": "P", "params": [], "fns": fns, "body": body, "ret": ["T", [["v", f"v{i}"] for i in range(n)]]}
    cand = [s for s, d in sites if d < depth]
    failing = draw(st.lists(st.sampled_from(cand), min_size=1, max_size=2, unique=True))
    mode = draw(st.sampled_from(["ctl", "ctl", "ctl-ex", "free"]))
    c: Dict[str, Any] = {"prog": P, "mc": draw(st.integers(2, 4)), "async": draw(st.booleans()), "mode": mode, "failing": failing}
    if mode == "ctl":
        c["choices"] = draw(st.lists(st.integers(0, 2**16), max_size=12))
    elif mode == "ctl-ex":
        c["max_leaves"] = sc.MAX_LEAVES[tier]
    if draw(st.integers(0, 3)) == 0:
        c["profile"] = True
    return c


@st.composite
def _opfail_case(draw: Any) -> Dict[str, Any]:
    from .. import gen

    def call(fn: str, i: int, args: Any) -> Dict[str, Any]:
        return {"k": "call", "fn": fn, "site": gen.site(i), "mark": True, "args": args, "kwargs": {}, "active": None,
                "unpack": None, "tags": [], "out": f"v{i}"}

    op = draw(st.sampled_from(["truediv", "floordiv", "mod"]))
    res_ = lambda: draw(st.sampled_from(list(gen.RES)))  # noqa: E731
    fns = {"f0": {"kind": "int", "res": res_()}, "f1": {"kind": "term", "res": res_()}, "f2": {"kind": "term", "res": res_()},
           "f3": {"kind": "term", "res": res_()}}
    body = [call("f0", 0, []), call("f1", 1, []),
            {"k": "op", "op": op, "a": ["v", "v0"], "b": ["c", 0], "out": "q"},
            call("f2", 2, [["v", "q"]]), call("f3", 3, [["v", "v2"], ["v", "v1"]])]
    P = {"name": "P", "params": [], "fns": fns, "body": body, "ret": ["T", [["v", "v0"], ["v", "v1"], ["v", "v3"]]]}
    return {"family": "opfail", "prog": P, "op": op, "async": draw(st.booleans()), "mc": draw(st.integers(1, 3)),
            "downstream": [gen.site(2), gen.site(3)]}


@st.composite
def _setup_retry_case(draw: Any) -> Dict[str, Any]:
    from .. import gen

    P = draw(gen.flat_prog(min_sites=3, max_sites=6, max_deps=2, resources=("thread", "async-thread"), dep_kinds=("pos", "kw"),
                           n_setup=draw(st.integers(2, 4)), wide=True))
    ssites = [s["site"] for s in P["body"] if P["fns"][s["fn"]].get("setup")]
    for s in P["body"]:
        f = P["fns"][s["fn"]]
        if f.get("setup") and f.get("kind") == "const":
            f["kind"] = "term"
    return {"family": "setup-retry", "prog": P, "mc": draw(st.integers(2, 3)), "async": draw(st.booleans()), "mode": "ctl",
            "choices": draw(st.lists(st.integers(0, 2**16), max_size=8)),
            "failing": [draw(st.sampled_from(ssites))]}


@st.composite
def _cases(draw: Any, tier: str) -> Dict[str, Any]:
    if draw(st.integers(0, 19)) == 0:
        return draw(_opfail_case())
    if draw(st.integers(0, 14)) == 0:
        return draw(_setup_retry_case())
    if draw(st.integers(0, 24)) == 0:
        return {"family": "setup-retry-overlap", "async": draw(st.booleans()), "mc": draw(st.integers(2, 3)),
                "res": [draw(st.sampled_from(["thread", "async-thread", "main-thread"])), draw(st.sampled_from(["thread", "async-thread"]))]}
    if draw(st.booleans()):
        return draw(_fan(tier))
    c = draw(sc.sched_case(tier=tier, modes=("ctl", "ctl", "free", "ctl-ex"), min_sites=2, max_sites=9,
                           wide=draw(st.integers(0, 3)) > 0, min_mc=draw(st.sampled_from([1, 2, 2, 3])), flags=draw(st.integers(0, 3)) == 0, sel_rate=0.15,
                           seq_rate=0.15, prio=(-2, 4), faults=2, max_mc=4, profile_rate=0.25,
                           n_debug=draw(st.sampled_from([0, 0, 2]))))
    if c.get("debug") and c.get("failing"):
        # a debug node that runs (RUN_DEBUG_NODES on) is a node like any other when it fails
        dbg_ = [b["site"] for b in c["prog"]["body"] if c["prog"]["fns"][b["fn"]].get("debug")]
        if dbg_ and draw(st.booleans()):
            c["failing"] = [draw(st.sampled_from(dbg_))]
    if draw(st.integers(0, 5)) == 0:
        c["noframe"] = True
    if c.get("failing") and draw(st.integers(0, 3)) == 0:
        # the failing node runs inline on the scheduler's thread and is the last choice among the ready nodes: it
        # fails right after its better-placed siblings have been dispatched, with no wait in between
        P = c["prog"]
        uses: Dict[str, int] = {}
        for b in P["body"]:
            uses[b["fn"]] = uses.get(b["fn"], 0) + 1
        for b in P["body"]:
            if b["site"] in c["failing"] and uses[b["fn"]] == 1:
                P["fns"][b["fn"]].update(res="main-thread", prio=-9)
    return c


def strategy(tier: str) -> Any:
    return _cases(tier)


def run_shard(H: Harness) -> None:
    if H.tier == "thorough":
        sc.run_small_scope(H, ("fail",), flavours=(False, True))
    H.run_hypothesis(strategy)


MANIFEST = {
    "engine": "sched",
    "technique": "fault injection + property-based testing with controlled schedules: every choice of 1-2 failing nodes x resource x completion order, exception-shape and no-downstream-start predicates over the trace",
    "level_text": "Fault enumeration: the failing nodes are drawn per generated DAG and the controller decides when they fail relative to their siblings (enumerating all orders for small cases); the trace shows every start after the failure became observable.",
    "level_note": "Thorough tier additionally enumerates a complete small scope (every DAG on 4 ordered nodes x the property's own dimension - priorities / sequential subsets / failing node - with the whole completion-order tree of each). Trusted: event trace, interposers; 'observed failure' = the wait call that returned the failed future (or the inline raise).",
}
