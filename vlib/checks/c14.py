"""C14 - a failing node fails the call, names itself, and starts nothing downstream."""
from typing import Any, Dict, List

from hypothesis import strategies as st

from .. import schedchecks as sc
from ..harness import CaseResult, Harness
from ..schedcase import Model

PID = "C14"
LEVEL = "fault_enumeration"
ORACLES = ("failure", "termination")
RULE = (
    "cases = call-only DAG programs (2-9 sites, three resources, sequential flags, max_concurrency 1..4, both "
    "flavours) x 0-2 failing sites (each raises a unique InjectedError instance when released) x completion order "
    "(controlled / exhaustive tree / free; a quarter of the failing nodes run inline as the last choice among the ready nodes) x {call location known, inspect.currentframe patched to None at build}. "
    "oracle: the call raises; the exception is a TawaziBaseException whose message contains the failing node's id and "
    "a file:line of the describing interpreter and whose __cause__ is the injected instance (without location: the "
    "injected instance itself); it names one of the nodes that actually failed; no descendant of a failed node is "
    "ever entered (checked after all gates are opened and the pool drained); no pool submit / task creation / inline "
    "entry after the wait that handed the failed future to the scheduler; with no failing node the call does not "
    "raise. non-trivial = a failing node ran, has >= 1 descendant, and >= 1 other node was inside its function when it failed."
)
ASSUMPTIONS = ["failures are Exception subclasses (tawazi's own errors derive from BaseException on purpose)"]
BUDGET = {"quick": {"shards": 8, "seconds": 40}, "thorough": {"shards": 16, "seconds": 420}}


def _nt(case: Dict[str, Any], M: Model, stats: List[Dict[str, Any]]) -> bool:
    for s in stats:
        if s["failed_ran"] and any(M.desc[f] for f in s["failed_ran"]) and s["siblings_at_failure"] >= 1:
            return True
    return False


def _opfail(case: Dict[str, Any]) -> CaseResult:
    """The failing node is one of tawazi's own operator nodes (`x / 0`, `x % 0`, `x // 0` written in the describing
    function): it fails the call like any other node - named, located at the line of the describing function where
    the operator was written, the ZeroDivisionError as the cause - and nothing downstream of it runs."""
    import asyncio

    from tawazi.errors import TawaziBaseException

    from .. import prog, sched

    res = CaseResult()
    P = case["prog"]
    res.nontrivial = True
    res.cls("operator-node-fails")
    try:
        b = prog.build(P, is_async=bool(case.get("async")), mc=case.get("mc", 2))
    except BaseException as e:  # noqa: BLE001
        res.viol("build-error", f"building raised {type(e).__name__}: {e}")
        return res
    ex = sched.Exec("free")
    exc = None
    try:
        with ex:
            if case.get("async"):
                asyncio.run(b.dag())
            else:
                b.dag()
    except BaseException as e:  # noqa: BLE001
        if isinstance(e, (KeyboardInterrupt, sched.HarnessSignal)):
            raise
        exc = e
    tag = f" [operator {case['op']} by zero, async={case.get('async')} mc={case.get('mc')}]"
    if exc is None:
        res.viol("failure-swallowed", "the operator node divides by zero but the call returned" + tag)
        return res
    if not isinstance(exc, TawaziBaseException):
        res.viol("failure-wrong-type", f"the call raised {type(exc).__name__}: {exc}" + tag)
    elif not isinstance(exc.__cause__, ZeroDivisionError):
        res.viol("failure-wrong-exception", f"__cause__ is {exc.__cause__!r}, not the ZeroDivisionError of the operator" + tag)
    else:
        msg = str(exc)
        if case["op"] not in msg:
            res.viol("failure-no-id", f"message {msg!r} does not name the operator node" + tag)
        if "prog.py:" not in msg:
            res.viol("failure-no-location", f"message {msg!r} does not point at the line of the describing function where the operator was written" + tag)
    entered = {e["site"] for e in ex.events if e["k"] == "ENTER"}
    late = entered & set(case["downstream"])
    if late:
        res.viol("failure-descendant-ran", f"{sorted(late)} depend on the failed operator node but were started" + tag)
    return res


def run_case(case: Dict[str, Any]) -> CaseResult:
    if case.get("family") == "opfail":
        return _opfail(case)
    return sc.evaluate(case, ORACLES, _nt)


@st.composite
def _fan(draw: Any, tier: str) -> Dict[str, Any]:
    """Independent roots, each with a chain below it; one or two roots / inner nodes fail while their siblings
    are in flight (max_concurrency >= 2)."""
    from .. import gen

    k = draw(st.integers(2, 4))
    depth = draw(st.integers(1, 2))
    fns: Dict[str, Any] = {}
    body = []
    sites = []
    n = 0
    for i in range(k):
        prev = None
        for d in range(depth + 1):
            fn = f"f{n}"
            fns[fn] = {"kind": "term", "res": draw(st.sampled_from(list(gen.RES if d else ("thread", "async-thread")))),
                       "prio": draw(st.integers(-2, 3))}
            if draw(st.integers(0, 7)) == 0:
                fns[fn]["seq"] = True
            args = [] if prev is None else [["v", prev]]
            body.append({"k": "call", "fn": fn, "site": gen.site(n), "mark": True, "args": args, "kwargs": {},
                         "active": None, "unpack": None, "tags": [], "out": f"v{n}"})
            sites.append((gen.site(n), d))
            prev = f"v{n}"
            n += 1
    P = {"name": "P", "params": [], "fns": fns, "body": body, "ret": ["T", [["v", f"v{i}"] for i in range(n)]]}
    cand = [s for s, d in sites if d < depth]
    failing = draw(st.lists(st.sampled_from(cand), min_size=1, max_size=2, unique=True))
    mode = draw(st.sampled_from(["ctl", "ctl", "ctl-ex", "free"]))
    c: Dict[str, Any] = {"prog": P, "mc": draw(st.integers(2, 4)), "async": draw(st.booleans()), "mode": mode, "failing": failing}
    if mode == "ctl":
        c["choices"] = draw(st.lists(st.integers(0, 2**16), max_size=12))
    elif mode == "ctl-ex":
        c["max_leaves"] = sc.MAX_LEAVES[tier]
    if draw(st.integers(0, 3)) == 0:
        c["profile"] = True
    return c


@st.composite
def _opfail_case(draw: Any) -> Dict[str, Any]:
    from .. import gen

    def call(fn: str, i: int, args: Any) -> Dict[str, Any]:
        return {"k": "call", "fn": fn, "site": gen.site(i), "mark": True, "args": args, "kwargs": {}, "active": None,
                "unpack": None, "tags": [], "out": f"v{i}"}

    op = draw(st.sampled_from(["truediv", "floordiv", "mod"]))
    res_ = lambda: draw(st.sampled_from(list(gen.RES)))  # noqa: E731
    fns = {"f0": {"kind": "int", "res": res_()}, "f1": {"kind": "term", "res": res_()}, "f2": {"kind": "term", "res": res_()},
           "f3": {"kind": "term", "res": res_()}}
    body = [call("f0", 0, []), call("f1", 1, []),
            {"k": "op", "op": op, "a": ["v", "v0"], "b": ["c", 0], "out": "q"},
            call("f2", 2, [["v", "q"]]), call("f3", 3, [["v", "v2"], ["v", "v1"]])]
    P = {"name": "P", "params": [], "fns": fns, "body": body, "ret": ["T", [["v", "v0"], ["v", "v1"], ["v", "v3"]]]}
    return {"family": "opfail", "prog": P, "op": op, "async": draw(st.booleans()), "mc": draw(st.integers(1, 3)),
            "downstream": [gen.site(2), gen.site(3)]}


@st.composite
def _cases(draw: Any, tier: str) -> Dict[str, Any]:
    if draw(st.integers(0, 19)) == 0:
        return draw(_opfail_case())
    if draw(st.booleans()):
        return draw(_fan(tier))
    c = draw(sc.sched_case(tier=tier, modes=("ctl", "ctl", "free", "ctl-ex"), min_sites=2, max_sites=9,
                           wide=draw(st.integers(0, 3)) > 0, min_mc=draw(st.sampled_from([1, 2, 2, 3])), flags=draw(st.integers(0, 3)) == 0, sel_rate=0.15,
                           seq_rate=0.15, prio=(-2, 4), faults=2, max_mc=4, profile_rate=0.25))
    if draw(st.integers(0, 5)) == 0:
        c["noframe"] = True
    if c.get("failing") and draw(st.integers(0, 3)) == 0:
        # the failing node runs inline on the scheduler's thread and is the last choice among the ready nodes: it
        # fails right after its better-placed siblings have been dispatched, with no wait in between
        P = c["prog"]
        uses: Dict[str, int] = {}
        for b in P["body"]:
            uses[b["fn"]] = uses.get(b["fn"], 0) + 1
        for b in P["body"]:
            if b["site"] in c["failing"] and uses[b["fn"]] == 1:
                P["fns"][b["fn"]].update(res="main-thread", prio=-9)
    return c


def strategy(tier: str) -> Any:
    return _cases(tier)


def run_shard(H: Harness) -> None:
    if H.tier == "thorough":
        sc.run_small_scope(H, ("fail",), flavours=(False, True))
    H.run_hypothesis(strategy)


MANIFEST = {
    "engine": "sched",
    "technique": "fault injection + property-based testing with controlled schedules: every choice of 1-2 failing nodes x resource x completion order, exception-shape and no-downstream-start predicates over the trace",
    "level_text": "Fault enumeration: the failing nodes are drawn per generated DAG and the controller decides when they fail relative to their siblings (enumerating all orders for small cases); the trace shows every start after the failure became observable.",
    "level_note": "Thorough tier additionally enumerates a complete small scope (every DAG on 4 ordered nodes x the property's own dimension - priorities / sequential subsets / failing node - with the whole completion-order tree of each). Trusted: event trace, interposers; 'observed failure' = the wait call that returned the failed future (or the inline raise).",
}
