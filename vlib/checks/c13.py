"""C13 - debug nodes run only when enabled and never influence production results."""
import asyncio
from collections import Counter
from typing import Any, Dict, List, Optional, Set

from hypothesis import strategies as st

from .. import gen, prog, sched, schedchecks as sc
from ..harness import CaseResult, Harness
from ..schedcase import Model, selection

PID = "C13"
LEVEL = "exploration"
RULE = (
    "cases = call-only DAG programs (3-8 sites) whose last 1-3 sites are debug nodes (chains of debug nodes, debug "
    "nodes with several parents, constant and variable inputs), 0-1 setup sites, executed with RUN_DEBUG_NODES off and "
    "on in mode call / executor(R, X, T - selections may name debug sites) / setup(), sync and async, on a fresh DAG per setting or with both settings one after the other on ONE DAG object (either order); plus invalid "
    "programs where a non-debug site takes a debug result as argument, keyword argument, flag or indexed value. "
    "oracle: flag off -> zero debug entries in every mode; flag on + whole call -> every debug site entered exactly "
    "once; flag on + selection -> every debug site that ran although it is outside the documented closure received "
    "exactly the arguments of the whole-DAG reference (all inputs available); values of non-debug sites identical "
    "with the flag on and off and equal to the reference for the selection; invalid programs raise "
    "TawaziBaseException when built. non-trivial = flag off with a T- or R-selection whose closure contains or "
    "borders a debug site, or flag on with a pulled-in debug site, or an invalid program."
)
ASSUMPTIONS = [
    "a debug node the user selected explicitly while one of its parents is not executed is not judged",
    "cfg.RUN_DEBUG_NODES is set by the harness around each run and restored",
]
BUDGET = {"quick": {"shards": 8, "seconds": 40}, "thorough": {"shards": 16, "seconds": 420}}


def _run(P: Dict[str, Any], case: Dict[str, Any], flag: bool, built: Any = None) -> Dict[str, Any]:
    import tawazi

    old = tawazi.cfg.RUN_DEBUG_NODES
    # the flag is a run-time switch: the value it has while the DAG is described ("describe_flag") must not matter
    tawazi.cfg.RUN_DEBUG_NODES = bool(case["describe_flag"]) if (built is None and "describe_flag" in case) else flag
    out: Dict[str, Any] = {}
    try:
        if built is not None:
            b = built
        elif case.get("nested") and case["mode"] == "call":
            # the same program called as a DAG inside an outer DAG: `def outer(): return inner()`
            outer = {"name": "OUT", "params": [], "fns": {}, "ret": ["x", ["v", "w"]],
                     "body": [{"k": "sub", "prog": P, "args": [], "active": None, "out": "w"}]}
            b = prog.build(outer, is_async=bool(case.get("async")), mc=case.get("mc", 2))
        else:
            b = prog.build(P, is_async=bool(case.get("async")), mc=case.get("mc", 2))
        tawazi.cfg.RUN_DEBUG_NODES = flag
        ids = b.node_ids() if not (case.get("nested") and case["mode"] == "call") else {}
        mode = case["mode"]
        ex = sched.Exec("free")
        kw = {}
        sel = case.get("sel") or {}
        for k, name in (("T", "target_nodes"), ("X", "exclude_nodes"), ("R", "root_nodes"), ("C", "cache_deps_of")):
            if sel.get(k) is not None:
                kw[name] = [ids[s] for s in sel[k]]

        def go() -> Any:
            if mode == "call":
                return b.dag()
            if mode == "executor":
                return b.dag.executor(**kw)()
            return b.dag.setup()

        async def ago() -> Any:
            if mode == "call":
                return await b.dag()
            if mode == "executor":
                return await b.dag.executor(**kw)()
            return await b.dag.setup()

        with ex:
            out["value"] = asyncio.run(ago()) if case.get("async") else go()
        out["ex"] = ex
    except BaseException as e:  # noqa: BLE001
        if isinstance(e, KeyboardInterrupt):
            raise
        out["exc"] = e
    finally:
        tawazi.cfg.RUN_DEBUG_NODES = old
    return out


def run_case(case: Dict[str, Any]) -> CaseResult:
    from tawazi.errors import TawaziBaseException

    res = CaseResult()
    P = case["prog"]
    if case.get("invalid"):
        res.evals = 1
        res.nontrivial = True
        res.cls("invalid-" + case["invalid"])
        try:
            prog.build(P, mc=1)
        except TawaziBaseException:
            return res
        except BaseException as e:  # noqa: BLE001
            res.viol("invalid-wrong-exception", f"a non-debug node depending on a debug node ({case['invalid']}) raised {type(e).__name__}: {e}")
            return res
        res.viol("invalid-accepted", f"a non-debug node depending on a debug node ({case['invalid']}) was accepted at build time")
        return res
    msel = case.get("sel") if case["mode"] == "executor" else None
    if msel and msel.get("C") is not None:
        msel = {"T": msel["C"]}  # executor(cache_deps_of=[n...]) executes what executor(target_nodes=[n...]) executes
    M = Model({"prog": P, "mc": case.get("mc", 2), "sel": msel})
    debug = {s for s in M.sites if M.spec[s].get("debug")}
    closure = M.selected if M.selected is not None else set(M.sites)
    if case["mode"] == "setup":
        closure = {s for s in M.sites if M.spec[s].get("setup")}
    full = prog.Ref(run_debug=True)
    prog.ref_run(P, [], full)
    full_obs = {k: (a, kw) for (_f, k, a, kw) in full.obs}
    outs = {}
    res.evals = 2
    pulled_any = False
    # same_instance: both settings of the flag are exercised on ONE DAG object, one after the other (the flag is
    # process configuration that may change between two executions); otherwise a fresh DAG per setting
    same = bool(case.get("same_instance")) and not any(f.get("setup") for f in P["fns"].values())
    built = None
    if same:
        import tawazi

        old_flag = tawazi.cfg.RUN_DEBUG_NODES
        tawazi.cfg.RUN_DEBUG_NODES = bool(case.get("build_flag"))
        try:
            built = prog.build(P, is_async=bool(case.get("async")), mc=case.get("mc", 2))
            if case.get("copy_first"):
                import copy as _copy

                # the object that runs is a deep copy of the described DAG, made while the flag had its build-time value
                built = prog.Built(built.prog, _copy.deepcopy(built.dag), built.xns, built.subs)
                res.cls("deep-copy-then-flag-toggled")
        except BaseException as e:  # noqa: BLE001
            res.viol("error", f"building raised {type(e).__name__}: {str(e)[:300]}")
            return res
        finally:
            tawazi.cfg.RUN_DEBUG_NODES = old_flag
        res.cls("same-instance-flag-toggled")
    for flag in ((True, False) if (same and case.get("on_first")) else (False, True)):
        o = _run(P, case, flag, built)
        tag = f" [RUN_DEBUG_NODES={flag} mode={case['mode']} sel={case.get('sel')} async={case.get('async')}" + (f" same DAG object, flag {'on' if case.get('on_first') else 'off'} first" if same else "") + "]"
        if "exc" in o:
            res.viol("error", f"raised {type(o['exc']).__name__}: {str(o['exc'])[:300]}" + tag)
            return res
        ex = o["ex"]
        entered = Counter(M.site_of_key.get(e["site"], e["site"]) for e in ex.events if e["k"] == "ENTER")
        obs = {M.site_of_key.get(e["site"], e["site"]): (tuple(e["args"]), tuple(sorted(e["kwargs"].items()))) for e in ex.events if e["k"] == "ENTER"}
        dbg_entered = {s for s in entered if s in debug}
        if not flag and dbg_entered:
            res.viol("debug-ran-with-flag-off", f"debug nodes {sorted(dbg_entered)} ran" + tag)
        if any(n > 1 for n in entered.values()):
            res.viol("ran-twice", f"{ {s: n for s, n in entered.items() if n > 1} }" + tag)
        if flag and case["mode"] == "call":
            missing = debug - dbg_entered
            if missing:
                res.viol("debug-did-not-run", f"debug nodes {sorted(missing)} did not run in a whole-DAG call" + tag)
        if flag:
            # "all inputs available": every dependency of a pulled-in debug node ran in this execution (setup nodes
            # may have been computed before), and it received exactly the values those executions produced.  (The
            # values themselves may differ from a whole-DAG run when the user's root selection starved a parent.)
            ran = set(entered)
            Rr = prog.Ref(selected=ran, run_debug=True)
            prog.ref_run(P, [], Rr)
            ran_obs = {k: (a, kw) for (_f, k, a, kw) in Rr.obs}
            for d in dbg_entered - closure:
                pulled_any = True
                missing = [x for x in M.deps[d] if x not in ran]
                if missing:
                    res.viol("debug-missing-input", f"pulled-in debug node {d} ran although its inputs {missing} were not executed" + tag)
                elif obs[d] != ran_obs.get(M.key[d]):
                    res.viol("debug-wrong-input", f"pulled-in debug node {d} received {obs[d]}, its executed inputs give {ran_obs.get(M.key[d])}" + tag)
        # non-debug sites: exactly the closure runs, with the reference's values
        want = {s for s in closure if s not in debug}
        got = {s for s in entered if s not in debug}
        if got != want:
            res.viol("non-debug-set", f"non-debug nodes entered {sorted(got)}, expected {sorted(want)}" + tag)
        if case["mode"] != "setup":
            R = prog.Ref(selected=closure, run_debug=flag)
            ref_val = prog.ref_run(P, [], R)
            val = o["value"]
            for i, s in enumerate(M.sites):
                if s in debug:
                    continue
                if val[i] != ref_val[i]:
                    res.viol("non-debug-value", f"value of {s} is {val[i]!r}, reference {ref_val[i]!r}" + tag)
            outs[flag] = [v for i, v in enumerate(val) if M.sites[i] not in debug]
    if len(outs) == 2 and outs[False] != outs[True]:
        res.viol("flag-changes-production-values", f"non-debug values differ: off {outs[False]} on {outs[True]}")
    borders = any((set(M.deps[d]) & closure) or d in closure for d in debug)
    sel = case.get("sel") or {}
    res.nontrivial = (case["mode"] == "executor" and (sel.get("T") is not None or sel.get("R") is not None) and borders) or pulled_any
    res.cls("mode-" + case["mode"])
    if pulled_any:
        res.cls("debug-pulled-in")
    if borders and case["mode"] == "executor":
        res.cls("selection-borders-debug")
    res.note = {"debug_sites": sorted(debug), "closure": sorted(closure)}
    return res


@st.composite
def cases(draw: Any, tier: str) -> Dict[str, Any]:
    mode = draw(st.sampled_from(["call", "executor", "executor", "executor", "setup"]))
    P = draw(gen.flat_prog(min_sites=3, max_sites=8, max_deps=3, resources=gen.RES, dep_kinds=("pos", "kw"),
                           n_setup=draw(st.integers(0, 1)), n_debug=draw(st.integers(1, 3)), mark_roots=(mode != "executor")))
    case: Dict[str, Any] = {"prog": P, "mc": draw(st.integers(1, 3)), "async": draw(st.booleans()), "mode": mode}
    if draw(st.booleans()):
        case.update(same_instance=True, on_first=draw(st.booleans()), build_flag=draw(st.booleans()), copy_first=draw(st.booleans()))
    else:
        if draw(st.booleans()):
            case["describe_flag"] = draw(st.booleans())
        if mode == "call" and draw(st.booleans()):
            case["nested"] = True
    for s in P["body"]:
        # a debug node with a constant argument (the site marker) is never pulled in by the debug rule:
        # most debug sites are therefore called without the marker (their function is used once)
        if P["fns"][s["fn"]].get("debug") and draw(st.integers(0, 3)) > 0:
            s["mark"] = False
    if draw(st.integers(0, 19)) == 0:
        # make it invalid: a non-debug site consumes a debug result
        dbg = [s for s in P["body"] if P["fns"][s["fn"]].get("debug")]
        d = draw(st.sampled_from(dbg))
        how = draw(st.sampled_from(["arg", "kwarg", "flag", "index", "nested-flag", "nested-arg"]))
        fn = f"x{len(P['fns'])}"
        P["fns"][fn] = {"kind": "term", "res": "thread"}
        e: Any = ["v", d["out"]]
        st_: Dict[str, Any] = {"k": "call", "fn": fn, "site": gen.site(len(P["body"])), "mark": True, "args": [], "kwargs": {},
                               "active": None, "unpack": None, "tags": [], "out": f"v{len(P['body'])}"}
        if how in ("nested-flag", "nested-arg"):
            # the consumer is a nested DAG: called with the debug result as its activation flag / as an argument
            inner = {"name": "IN", "params": [] if how == "nested-flag" else [["q0", None]],
                     "fns": {"g0": {"kind": "term", "res": "thread"}},
                     "body": [{"k": "call", "fn": "g0", "site": gen.site(len(P["body"]) + 50), "mark": True,
                               "args": [] if how == "nested-flag" else [["p", "q0"]], "kwargs": {}, "active": None,
                               "unpack": None, "tags": [], "out": "w0"}],
                     "ret": ["x", ["v", "w0"]]}
            st_ = {"k": "sub", "prog": inner, "args": [] if how == "nested-flag" else [e],
                   "active": e if how == "nested-flag" else None, "out": f"v{len(P['body'])}"}
        elif how == "arg":
            st_["args"] = [e]
        elif how == "kwarg":
            st_["kwargs"] = {"k": e}
        elif how == "flag":
            st_["active"] = e
        else:
            st_["args"] = [["i", e, 0]]
        P["body"].append(st_)
        P["ret"][1].append(["v", st_["out"]])
        case["invalid"] = how
        return case
    if mode == "executor":
        deps = gen.deps_of(P)
        dbg_sites = [s["site"] for s in P["body"] if P["fns"][s["fn"]].get("debug") and deps[s["site"]]]
        if dbg_sites and draw(st.booleans()):
            # target exactly the parents of a debug node: the debug rule should pull it in (flag on)
            d = draw(st.sampled_from(dbg_sites))
            case["sel"] = {"T": [x for x in deps[d]]}
        else:
            case["sel"] = draw(sc.selection_strategy(P))
        if set(k for k, v in case["sel"].items() if v is not None) == {"T"} and case["sel"]["T"] and draw(st.sampled_from([True, False, False])):
            case["sel"] = {"C": case["sel"]["T"]}  # the same nodes named through cache_deps_of (no cache file)
    return case


def strategy(tier: str) -> Any:
    return cases(tier)


def run_shard(H: Harness) -> None:
    H.run_hypothesis(strategy)


MANIFEST = {
    "engine": "prog",
    "technique": "property-based testing: generated DAG shapes with debug nodes x RUN_DEBUG_NODES x execution mode x selection, metamorphic (flag on vs off) and reference-evaluator oracles over node entries and values",
    "level_text": "Exploration over placements of debug nodes x flag x mode x selection. Entries of every node function are recorded, so a debug node that runs with the flag off, is pulled in without its inputs, or changes a production value is a concrete counterexample; invalid programs must be rejected at build time.",
    "level_note": "Trusted: documented closure (schedcase.selection), reference evaluator. Debug nodes selected explicitly with an unexecuted parent are not judged.",
}
