"""Canonical, comparable description of a built DAG (ids, references, attributes, constants)."""
import re
from typing import Any

_ADDR = re.compile(r" at 0x[0-9a-fA-F]+")


def _norm(x: Any) -> Any:
    """Ids of constant return holders embed repr(function), i.e. a memory address: drop it."""
    if isinstance(x, str):
        return _ADDR.sub("", x)
    if isinstance(x, (list, tuple)):
        return type(x)(_norm(y) for y in x)
    if isinstance(x, dict):
        return {_norm(k): _norm(v) for k, v in x.items()}
    return x


def dump(dag: Any) -> Any:
    def ref(u: Any) -> Any:
        return None if u is None else (u.id, list(u.key))

    nodes = {}
    for nid, xn in dag.exec_nodes.items():
        nodes[nid] = (type(xn).__name__, [ref(a) for a in xn.args], {k: ref(v) for k, v in xn.kwargs.items()}, ref(xn.active),
                      xn.priority, xn.is_sequential, str(xn.resource), xn.setup, xn.debug, xn.tag, xn.unpack_to)
    consts = {k: repr(v) for k, v in dag.results.items()}
    rets = dag.return_uxns
    if isinstance(rets, (tuple, list)):
        rr: Any = [ref(u) for u in rets]
    elif isinstance(rets, dict):
        rr = {k: ref(u) for k, u in rets.items()}
    else:
        rr = ref(rets)
    return _norm((nodes, consts, [ref(u) for u in dag.input_uxns], rr, dag.max_concurrency,
                  sorted(dag.graph_ids.edges), dict(dag.graph_ids.compound_priority)))
