#!/venv/bin/python
"""Pretty-print the program of a failure / replay file."""
import json, sys
for f in sys.argv[1:]:
    r = json.load(open(f)); c = r["case"]
    print("==", f, "|", r.get("bucket"), "|", (r.get("msg") or "")[:400])
    def show(P, ind=0):
        pad = " " * ind
        print(pad, P["name"], "params", P["params"], "ret", P["ret"])
        print(pad, "  fns", {k: {a: b for a, b in v.items() if a not in ("prio",)} for k, v in P["fns"].items()})
        for s in P["body"]:
            if s["k"] == "sub":
                print(pad, "  sub", s["args"], "active", s["active"], "->", s["out"]); show(s["prog"], ind + 4)
            else:
                print(pad, "  ", {k: v for k, v in s.items() if k not in ("tags",) and v not in (None, {}, [])})
    if "prog" in c:
        show(c["prog"])
    print({k: v for k, v in c.items() if k != "prog"})
