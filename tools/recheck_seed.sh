#!/bin/sh
# Re-run checks on an already confirmed seeded change (artefacts in seeded/<name>): recheck_seed.sh <name> <prop> <checks> [seconds]
cd "$(dirname "$0")/.."
/venv/bin/python tools/confirm_seed.py "$1" "$PWD/seeded/$1" --prop "$2" --checks "$3" --seconds "${4:-30}" --skip-confirm 2>&1 | grep -E "^(---|     VIOL)" | cut -c1-200 | sed "s/^/$1 /"
