#!/venv/bin/python
"""Run every mutant in mutants/ against the checks it is expected to break; write SENSITIVITY.md."""
import glob, json, os, subprocess, sys, time
HERE = os.path.dirname(os.path.dirname(os.path.abspath(__file__)))
secs = sys.argv[1] if len(sys.argv) > 1 else "15"
only = sys.argv[2:] 
rows = []
for f in sorted(glob.glob(os.path.join(HERE, "mutants", "*.json"))):
    name = os.path.basename(f)[:-5]
    if only and not any(o in name for o in only):
        continue
    m = json.load(open(f))
    t = time.time()
    r = subprocess.run([sys.executable, os.path.join(HERE, "tools", "mutate.py"), f, "--seconds", secs], capture_output=True, text=True)
    res = {}
    for ln in r.stdout.splitlines():
        if ln.startswith("--- "):
            pid = ln.split()[1].rstrip(":")
            res[pid] = "CAUGHT" if "CAUGHT" in ln else ("MISSED" if "MISSED" in ln else "HARNESS-ERROR")
    rows.append((name, m.get("why", ""), res))
    print(name, res, f"{time.time()-t:.0f}s", flush=True)
    if "MUTANT-ERROR" in r.stdout:
        print("   ", [l for l in r.stdout.splitlines() if "MUTANT-ERROR" in l])
with open(os.path.join(HERE, "SENSITIVITY.md"), "w") as out:
    out.write("# Sensitivity: deliberately broken copies of tawazi vs. the checks\n\n")
    out.write(f"Produced by `tools/sweep_mutants.py {secs}` (quick tier, {secs}s per shard; each mutant is applied to a scratch copy under $TMPDIR, `TAWAZI_SRC` points the checks at it).\n\n")
    out.write("| mutant | change | result per expected check |\n|---|---|---|\n")
    for name, why, res in rows:
        out.write(f"| {name} | {why} | {', '.join(f'{k}: {v}' for k, v in res.items())} |\n")
