#!/opt/veriftools/pyvenv/bin/python
"""Validate MANIFEST.json and evidence/*.json against the schemas (run with python3-vt, which has jsonschema)."""
import glob, json, sys, jsonschema
ok = True
m = json.load(open("/verif/MANIFEST.json"))
jsonschema.validate(m, json.load(open("/root/.vp/MANIFEST.schema.json")))
es = json.load(open("/root/.vp/EVIDENCE.schema.json"))
for f in sorted(glob.glob("/verif/evidence/*.json")):
    try:
        jsonschema.validate(json.load(open(f)), es)
    except jsonschema.ValidationError as e:
        ok = False
        print("INVALID", f, e.message[:300])
claimed = {c["property_id"] for c in m["checks"]} | {n["property_id"] for n in m.get("not_applicable", [])}
props = {json.loads(l)["id"] for l in open("/verif/properties.jsonl")}
if claimed != props:
    ok = False
    print("manifest does not cover", props ^ claimed)
print("valid" if ok else "INVALID")
sys.exit(0 if ok else 1)
