#!/venv/bin/python
"""Re-run the registered quick checks against every seeded change (seeded/*/patch.diff) and every mutant.

  tools/seed_matrix.py [--seed N] [--only substr]      -> writes SEED_MATRIX.md

Each patch is applied in a scratch worktree of /repo under /tmp (removed afterwards); the checks named in the
seed's meta.json (caught_by, falling back to breaks_property) run there through TAWAZI_SRC with the default budget.
"""
import argparse, glob, json, os, re, subprocess, sys, time

HERE = os.path.dirname(os.path.dirname(os.path.abspath(__file__)))
PY = "/venv/bin/python"


def sh(cmd, cwd=None, env=None, timeout=1800):
    r = subprocess.run(cmd, cwd=cwd, env=env, capture_output=True, text=True, timeout=timeout)
    return r.returncode, r.stdout + r.stderr


def main():
    ap = argparse.ArgumentParser()
    ap.add_argument("--seed", default="2")
    ap.add_argument("--only", default=None)
    ap.add_argument("--seconds", default=None)
    ap.add_argument("--jobs", type=int, default=1)
    a = ap.parse_args()
    dirs = [d for d in sorted(glob.glob(os.path.join(HERE, "seeded", "*"))) if not a.only or a.only in os.path.basename(d)]
    from concurrent.futures import ThreadPoolExecutor

    with ThreadPoolExecutor(max_workers=max(1, a.jobs)) as pool:
        rows = [r for r in pool.map(lambda d: one(d, a), dirs) if r is not None]
    write(rows, a)
    return 0


def one(d, a):
    if True:
        name = os.path.basename(d)
        meta = json.load(open(os.path.join(d, "meta.json")))
        by = re.findall(r"C\d\d", meta.get("caught_by", "") or "") or [meta["breaks_property"]]
        if "not caught" in (meta.get("caught_by") or ""):
            return (name, meta.get("change", ""), {"-": "NOT-JUDGED (see meta.json)"})
        wt = f"/tmp/matrix_{name}"
        sh(["git", "-C", "/repo", "worktree", "remove", "--force", wt])
        for _try in range(6):  # (parallel jobs may collide on git's own lock)
            rc, out = sh(["git", "-C", "/repo", "worktree", "add", "-q", wt, "HEAD"])
            if rc == 0:
                break
            time.sleep(1.0 + _try)
        res = {}
        try:
            rc, out = sh(["git", "apply", os.path.join(d, "patch.diff")], cwd=wt)
            if rc:
                res["-"] = "PATCH-DOES-NOT-APPLY"
            else:
                for pid in by[:2]:
                    cmd = [PY, os.path.join(HERE, "run_check.py"), pid, "--tier", "quick", "--no-evidence"]
                    if a.seconds:
                        cmd += ["--seconds", a.seconds]
                    t = time.time()
                    rc, out = sh(cmd, cwd=HERE, env=dict(os.environ, TAWAZI_SRC=wt, VERIF_SEED=a.seed))
                    res[pid] = ("CAUGHT" if rc == 1 else "MISSED" if rc == 0 else "HARNESS-ERROR") + f" ({time.time()-t:.0f}s)"
                    if rc == 1:
                        break
        finally:
            sh(["git", "-C", "/repo", "worktree", "remove", "--force", wt])
        print(name, res, flush=True)
        return (name, meta.get("change", meta.get("needs_to_manifest", "")), res)


def write(rows, a):
    head = subprocess.run(["git", "-C", "/repo", "rev-parse", "--short", "HEAD"], capture_output=True, text=True).stdout.strip()
    with open(os.path.join(HERE, "SEED_MATRIX.md"), "w") as f:
        f.write(f"# Seeded changes vs. the registered quick checks (VERIF_SEED={a.seed}, {a.seconds or 'default'} s per shard, /repo at {head})\n\n")
        f.write("Produced by `tools/seed_matrix.py`; each patch applied in a scratch worktree, checks run through TAWAZI_SRC.\n\n")
        f.write("| seeded change | what | result |\n|---|---|---|\n")
        for name, what, res in rows:
            f.write(f"| {name} | {what} | {', '.join(f'{k}: {v}' for k, v in res.items())} |\n")
    return 0


if __name__ == "__main__":
    sys.exit(main())
