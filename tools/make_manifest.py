#!/venv/bin/python
"""Writes MANIFEST.json from the table of checks that exist (vlib/checks/cXX.py with a MANIFEST dict)."""
import importlib
import json
import os
import sys

HERE = os.path.dirname(os.path.dirname(os.path.abspath(__file__)))
sys.path.insert(0, HERE)
os.environ.setdefault("PYTHONHASHSEED", "0")

PIDS = [f"C{i:02d}" for i in range(1, 21)]
NOT_YET = "check not built yet in this round (planned, see DESIGN.md section 4)"


def main() -> None:
    checks, na = [], []
    engines = {}
    for pid in PIDS:
        path = os.path.join(HERE, "vlib", "checks", pid.lower() + ".py")
        if not os.path.exists(path):
            na.append({"property_id": pid, "reason": NOT_YET})
            continue
        m = importlib.import_module(f"vlib.checks.{pid.lower()}")
        if getattr(m, "NOT_APPLICABLE", None):
            na.append({"property_id": pid, "reason": m.NOT_APPLICABLE})
            continue
        mf = m.MANIFEST
        checks.append({
            "property_id": pid,
            "quick_cmd": f"/venv/bin/python run_check.py {pid} --tier quick",
            "thorough_cmd": f"/venv/bin/python run_check.py {pid} --tier thorough",
            "evidence_file": f"evidence/{pid}.json",
            "replay_cmd_template": f"/venv/bin/python run_check.py {pid} --replay {{path}}",
            "engine": mf["engine"],
            "level_claimed": {"category": m.LEVEL, "text": mf["level_text"], "design_ref": mf.get("design_ref", f"DESIGN.md section 4 ({pid})")},
            "level_note": mf["level_note"],
            "technique": mf["technique"],
        })
        engines.setdefault(mf["engine"], []).append(pid)
    eng_desc = {
        "prog": ("vlib/prog.py", "(with vlib/gen.py, vlib/richgen.py, vlib/progchecks.py) program IR with two interpretations (tawazi build / plain-Python reference), free-algebra node functions, Hypothesis strategies"),
        "sched": ("vlib/sched.py", "(with vlib/oracle.py, vlib/schedcase.py, vlib/schedchecks.py) schedule controller: interposed wait/ThreadPoolExecutor/asyncio.wait, gated node functions, choice vectors, exhaustive choice-tree enumeration, trace oracles"),
        "hist": ("vlib/hist.py", "Hypothesis rule-based state machines over API histories with a Python model"),
        "hashseed": ("vlib/c07_worker.py", "persistent worker processes with different PYTHONHASHSEED evaluating the same generated DAG"),
        "threads": ("vlib/checks/c16.py", "scripted multi-thread interleavings (builds paused inside the describing function)"),
    }
    manifest = {
        "version": 1,
        "setup_cmd": "./setup.sh",
        "hooks": {
            "guard": "MINDEE_TAWAZI_VERIF",
            "enable": "no source hooks: checks import tawazi from /repo's working tree in a fresh interpreter and observe it by interposing concurrent.futures.wait / ThreadPoolExecutor / asyncio.wait from the harness (vlib/sched.py); the guard name is reserved and unused",
            "baseline_off_cmd": "cd /repo && /venv/bin/python -m pytest -ra -q -p no:cacheprovider --timeout=900 --continue-on-collection-errors",
            "source_commits": [],
            "add_only": True,
        },
        "engines": [
            {"name": k, "path": eng_desc[k][0], "serves_properties": v, "kind_free_text": eng_desc[k][1]}
            for k, v in sorted(engines.items())
        ],
        "checks": checks,
        "not_applicable": na,
        "notes": "All checks: property-based testing / fuzzing (Hypothesis generators, stateful machines, exhaustive small-scope enumeration, controlled schedules). Repository changes are only 'fix:' commits listed in KNOWN_FINDINGS.txt. VERIF_SEED selects the generator seeds; TAWAZI_SRC (default /repo) selects the tree under test.",
    }
    json.dump(manifest, open(os.path.join(HERE, "MANIFEST.json"), "w"), indent=1)
    print("checks:", [c["property_id"] for c in checks], "not_applicable:", len(na))


if __name__ == "__main__":
    main()
