#!/venv/bin/python
"""Confirm a seeded change produced by a sub-agent, independently, in a fresh scratch worktree, and run checks on it.

  tools/confirm_seed.py <name> <dir with patch.diff/demo.py/NOTES.md> --prop C05 [--checks C05,C09] [--seconds 20]

Steps: fresh worktree of /repo HEAD under /tmp -> demo must exit 0 -> apply patch -> test suite must pass -> demo must
exit != 0 -> run the checks with TAWAZI_SRC=<worktree>.  On success the artefacts are stored in /verif/seeded/<name>/.
The worktree is removed afterwards.
"""
import argparse, json, os, shutil, subprocess, sys, time

HERE = os.path.dirname(os.path.dirname(os.path.abspath(__file__)))
PY = "/venv/bin/python"


def sh(cmd, cwd=None, env=None, timeout=900):
    r = subprocess.run(cmd, cwd=cwd, env=env, capture_output=True, text=True, timeout=timeout)
    return r.returncode, r.stdout + r.stderr


def main():
    ap = argparse.ArgumentParser()
    ap.add_argument("name")
    ap.add_argument("src")
    ap.add_argument("--prop", required=True)
    ap.add_argument("--checks", default=None)
    ap.add_argument("--seconds", default="20")
    ap.add_argument("--seed", default="1")
    ap.add_argument("--skip-confirm", action="store_true")
    ap.add_argument("--patch", default="patch.diff")
    ap.add_argument("--demo", default="demo.py")
    a = ap.parse_args()
    wt = f"/tmp/confirm_{a.name}"
    meta = {"name": a.name, "breaks_property": a.prop, "ran": []}
    sh(["git", "-C", "/repo", "worktree", "remove", "--force", wt])
    rc, out = sh(["git", "-C", "/repo", "worktree", "add", "-q", wt, "HEAD"])
    if rc:
        print(out); return 2
    try:
        env = dict(os.environ, PYTHONPATH=wt)
        shutil.copy(os.path.join(a.src, a.demo), os.path.join(wt, "demo.py"))
        if not a.skip_confirm:
            rc0, out0 = sh([PY, "demo.py"], cwd=wt, env=env, timeout=300)
            meta["demo_without_change_rc"] = rc0
            print("demo without change: rc", rc0)
        rc, out = sh(["git", "apply", os.path.join(a.src, a.patch)], cwd=wt)
        if rc:
            print("patch does not apply:", out); return 2
        if not a.skip_confirm:
            rcs, outs = sh([PY, "-m", "pytest", "-q", "-rf", "-p", "no:cacheprovider", "--no-cov"], cwd=wt, env=env, timeout=900)
            tail = [l for l in outs.splitlines() if " passed" in l or " failed" in l][-1:]
            failed = [l.split()[1] for l in outs.splitlines() if l.startswith("FAILED ")]
            if rcs != 0 and failed and len(failed) <= 3:
                # wall-clock tests of the suite fail when the machine is loaded: a failure counts only if it repeats alone
                for attempt in range(4):
                    rc2, out2 = sh([PY, "-m", "pytest", "-q", "-p", "no:cacheprovider", "--no-cov"] + failed, cwd=wt, env=env, timeout=900)
                    tail.append(f"re-run {attempt + 1} of {failed} alone: rc {rc2}")
                    if rc2 == 0:
                        rcs = 0
                        break
                    time.sleep(5)
            meta["suite_with_change"] = tail
            print("suite with change: rc", rcs, tail)
            rc1, out1 = sh([PY, "demo.py"], cwd=wt, env=env, timeout=300)
            meta["demo_with_change_rc"] = rc1
            meta["demo_with_change_output"] = out1[-600:]
            print("demo with change: rc", rc1, out1.strip().splitlines()[-2:])
            ok = rc0 == 0 and rc1 != 0 and rcs == 0
            meta["confirmed"] = ok
            if not ok:
                print("NOT CONFIRMED")
        checks = (a.checks or a.prop).split(",")
        results = {}
        for pid in checks:
            cmd = [PY, os.path.join(HERE, "run_check.py"), pid, "--tier", "quick", "--no-evidence", "--seconds", a.seconds]
            t = time.time()
            rc, out = sh(cmd, cwd=HERE, env=dict(os.environ, TAWAZI_SRC=wt, VERIF_SEED=a.seed), timeout=1800)
            lines = [l for l in out.splitlines() if l.startswith(("VIOLATION", "  rule=", "HARNESS", pid))]
            results[pid] = {"rc": rc, "verdict": "CAUGHT" if rc == 1 else "MISSED" if rc == 0 else "HARNESS-ERROR", "lines": lines[:6]}
            meta["ran"].append(" ".join(cmd[1:]) + f"  (TAWAZI_SRC=<scratch worktree with the patch applied>, VERIF_SEED={a.seed}) -> rc {rc}")
            print(f"--- {pid}: {results[pid]['verdict']} ({time.time()-t:.0f}s)")
            for l in lines[:6]:
                print("    ", l[:300])
            if rc == 2:
                print(out[-1500:])
        meta["check_results"] = results
        dst = os.path.join(HERE, "seeded", a.name)
        os.makedirs(dst, exist_ok=True)
        for f, g in ((a.patch, "patch.diff"), (a.demo, "demo.py"), ("NOTES.md", "NOTES.md")):
            if os.path.exists(os.path.join(a.src, f)) and os.path.abspath(os.path.join(a.src, f)) != os.path.abspath(os.path.join(dst, g)):
                shutil.copy(os.path.join(a.src, f), os.path.join(dst, g))
        old = {}
        mp = os.path.join(dst, "meta.json")
        if os.path.exists(mp):
            old = json.load(open(mp))
        if "check_results" in old and "first_run" not in old:
            old["first_run"] = {k: v["verdict"] for k, v in old["check_results"].items()}  # before any strengthening
        if a.skip_confirm and "check_results" in old:
            merged = dict(old["check_results"])
            merged.update(meta["check_results"])
            meta["check_results"] = merged
            meta["ran"] = list(old.get("ran", [])) + meta["ran"]
        old.update(meta)
        json.dump(old, open(mp, "w"), indent=1)
        return 0
    finally:
        sh(["git", "-C", "/repo", "worktree", "remove", "--force", wt])


if __name__ == "__main__":
    sys.exit(main())
