#!/bin/sh
# Runs every registered quick (or $1=thorough) check once; prints one line per check.
cd "$(dirname "$0")/.."
TIER=${1:-quick}
for i in 01 02 03 04 05 06 07 08 09 10 11 12 13 14 15 16 17 18 19 20; do
  out=$(/venv/bin/python run_check.py C$i --tier $TIER 2>&1 | grep -v "WARNING conda")
  rc=$?
  echo "$out" | grep -E "^(C$i|VIOLATION|HARNESS|KNOWN|  rule)" | cut -c1-300
done
