#!/venv/bin/python
"""Sensitivity: apply one small change to a scratch copy of tawazi and run checks against it.

  tools/mutate.py <mutant.json> [--checks C02,C05] [--tier quick] [--seconds N] [--suite]

mutant.json := {"file": "tawazi/...py", "old": "...", "new": "...", "expect": ["C02"], "why": "..."}
              or {"edits": [{"file":..,"old":..,"new":..}, ...], ...}
The copy lives under $TMPDIR (outside /repo and /verif) and is removed afterwards.
"""
import argparse
import json
import os
import shutil
import subprocess
import sys
import tempfile

HERE = os.path.dirname(os.path.dirname(os.path.abspath(__file__)))


def main() -> int:
    ap = argparse.ArgumentParser()
    ap.add_argument("mutant")
    ap.add_argument("--checks", default=None)
    ap.add_argument("--tier", default="quick")
    ap.add_argument("--seconds", default=None)
    ap.add_argument("--suite", action="store_true", help="also run the repository's own tests on the mutant")
    ap.add_argument("--seed", default="1")
    a = ap.parse_args()
    m = json.load(open(a.mutant))
    edits = m.get("edits") or [m]
    tmp = tempfile.mkdtemp(prefix="twz_mut_")
    try:
        shutil.copytree("/repo/tawazi", os.path.join(tmp, "tawazi"))
        for e in edits:
            p = os.path.join(tmp, e["file"])
            s = open(p).read()
            if s.count(e["old"]) != 1:
                print(f"MUTANT-ERROR: 'old' occurs {s.count(e['old'])} times in {e['file']}")
                return 2
            open(p, "w").write(s.replace(e["old"], e["new"]))
        r = subprocess.run([sys.executable, "-c", "import tawazi"], cwd=tmp, capture_output=True, text=True)
        if r.returncode != 0:
            print("MUTANT-ERROR: does not import:", r.stderr[-500:])
            return 2
        if a.suite:
            shutil.copytree("/repo/tests", os.path.join(tmp, "tests"))
            for f in ("pyproject.toml", "README.md", "documentation", "mkdocs.yml", "example.py"):
                src = os.path.join("/repo", f)
                if os.path.isdir(src):
                    shutil.copytree(src, os.path.join(tmp, f))
                elif os.path.exists(src):
                    shutil.copy(src, tmp)
            r = subprocess.run([sys.executable, "-m", "pytest", "-q", "-p", "no:cacheprovider", "-x", "--no-cov", "tests"],
                               cwd=tmp, capture_output=True, text=True, env=dict(os.environ, PYTHONPATH=tmp))
            tail = [ln for ln in r.stdout.splitlines() if "passed" in ln or "failed" in ln or "error" in ln][-2:]
            print("SUITE:", "PASS" if r.returncode == 0 else "FAIL", tail)
        checks = (a.checks.split(",") if a.checks else m.get("expect", []))
        rc_all = {}
        for pid in checks:
            cmd = [sys.executable, os.path.join(HERE, "run_check.py"), pid, "--tier", a.tier, "--no-evidence"]
            if a.seconds:
                cmd += ["--seconds", a.seconds]
            r = subprocess.run(cmd, cwd=HERE, capture_output=True, text=True,
                               env=dict(os.environ, TAWAZI_SRC=tmp, VERIF_SEED=a.seed))
            lines = [ln for ln in r.stdout.splitlines() if ln.startswith(("VIOLATION", "  rule=", "HARNESS", pid))]
            rc_all[pid] = r.returncode
            print(f"--- {pid}: rc={r.returncode} ({'CAUGHT' if r.returncode == 1 else 'MISSED' if r.returncode == 0 else 'HARNESS-ERROR'})")
            for ln in lines[:8]:
                print("   ", ln[:400])
            if r.returncode == 2:
                print(r.stdout[-1500:], r.stderr[-1500:])
        return 0
    finally:
        shutil.rmtree(tmp, ignore_errors=True)


if __name__ == "__main__":
    sys.exit(main())
