#!/venv/bin/python
"""Runner: `run_check.py Cxx --tier quick|thorough` / `run_check.py Cxx --replay <file>`.

exit 0: the property held on everything explored (KNOWN-FINDING lines allowed)
exit 1: `VIOLATION property=<id> replay=<path>` printed for each distinct violated rule
exit 2: the harness itself failed (never a verdict about the property)
"""
import argparse
import glob
import json
import os
import subprocess
import sys
import tempfile
import time

HERE = os.path.dirname(os.path.abspath(__file__))
PY = sys.executable


def reexec_with_hashseed() -> None:
    if os.environ.get("PYTHONHASHSEED") != "0" and not os.environ.get("VERIF_KEEP_HASHSEED"):
        env = dict(os.environ, PYTHONHASHSEED="0")
        os.execve(PY, [PY] + sys.argv, env)


def main() -> int:
    ap = argparse.ArgumentParser()
    ap.add_argument("pid")
    ap.add_argument("--tier", default=os.environ.get("VERIF_TIER") or "quick", choices=["quick", "thorough"])
    ap.add_argument("--replay", default=None)
    ap.add_argument("--shards", type=int, default=None)
    ap.add_argument("--seconds", type=float, default=None)
    ap.add_argument("--no-evidence", action="store_true")
    a = ap.parse_args()
    reexec_with_hashseed()
    os.chdir(HERE)
    sys.path.insert(0, HERE)
    pid = a.pid.upper()
    try:
        seed = int(os.environ.get("VERIF_SEED", "1") or "1")
    except ValueError:
        seed = 1

    from vlib import harness

    try:
        check = harness.load_check(pid)
    except Exception:
        import traceback

        traceback.print_exc()
        return 2

    if a.replay:
        return replay_one(check, pid, a.replay)

    t0 = time.monotonic()
    known = harness.parse_known(pid)
    violations = []  # (bucket, path)
    known_lines = []
    n_replayed = 0

    # 1. regression corpus and witnesses of open findings
    open_w = {os.path.normpath(f["witness"]): f for f in known["open"] if "witness" in f}
    for path in sorted(glob.glob(os.path.join(HERE, "replays", pid, "*.json"))):
        rel = os.path.normpath(os.path.relpath(path, HERE))
        rec = json.load(open(path))
        try:
            res = check.run_case(rec["case"])
        except Exception:
            import traceback

            traceback.print_exc()
            print(f"HARNESS-ERROR while replaying {rel}")
            return 2
        n_replayed += 1
        if rel in open_w:
            f = open_w[rel]
            hit = [v for v in res.violations if v.key == f.get("key")]
            other = [v for v in res.violations if v.key != f.get("key")]
            if hit:
                known_lines.append(f"KNOWN-FINDING: {f['text']}")
            else:
                print(f"NOTE: witness {rel} of open finding key={f.get('key')} no longer fails")
            for v in other:
                violations.append((v.bucket, rel, v.msg))
        else:
            for v in res.violations:
                if v.key is not None and v.key in {f.get("key") for f in known["open"]}:
                    continue
                violations.append((v.bucket, rel, v.msg))

    # 2. generated search, in parallel shards
    budget = check.BUDGET[a.tier]
    nsh = a.shards or budget["shards"]
    secs = a.seconds or budget["seconds"]
    tmp = tempfile.mkdtemp(prefix=f"verif_{pid}_")
    procs = []
    opt_shards: list = []
    n_fuzz = 0
    if a.tier == "thorough" and getattr(check, "ATHERIS", False) and not os.environ.get("VERIF_NO_ATHERIS"):
        n_fuzz = min(4, nsh // 4)  # coverage-guided shards (atheris) next to the Hypothesis shards
    for i in range(nsh):
        out = os.path.join(tmp, f"shard{i}.json")
        if i >= nsh - n_fuzz:
            cmd = [PY, "-m", "vlib.fuzzshard", pid, "--seed", str(seed), "--shard", str(i), "--nshards", str(nsh),
                   "--seconds", str(secs), "--out", out, "--corpus", os.path.join(tmp, f"corpus{i}")]
        else:
            cmd = [PY, "-m", "vlib.harness", pid, "--tier", a.tier, "--seed", str(seed), "--shard", str(i),
                   "--nshards", str(nsh), "--seconds", str(secs), "--out", out]
        env = dict(os.environ, PYTHONHASHSEED="0", PYTHONPATH=HERE)
        if i == nsh - n_fuzz - 1 and nsh >= 4 and not os.environ.get("VERIF_NO_PYTHON_O"):
            # environment axis: one Hypothesis shard runs the interpreter with -O (asserts stripped, __debug__ False)
            env["PYTHONOPTIMIZE"] = "1"
            opt_shards.append(i)
        # (output goes to a file: a pipe that nobody drains while the shards run would block a talkative shard)
        logf = open(os.path.join(tmp, f"shard{i}.log"), "wb")
        procs.append((i, out, subprocess.Popen(cmd, cwd=HERE, env=env, stdout=logf, stderr=subprocess.STDOUT)))
        logf.close()
    reports = []
    harness_fail = []
    hard_limit = secs * 3 + 420
    for i, out, p in procs:
        try:
            p.wait(timeout=max(10.0, hard_limit - (time.monotonic() - t0)))
        except subprocess.TimeoutExpired:
            p.kill()
            p.wait()
            harness_fail.append(f"shard {i} exceeded the hard limit")
        try:
            with open(os.path.join(tmp, f"shard{i}.log"), "rb") as lf:
                lf.seek(0, 2)
                lf.seek(max(0, lf.tell() - 4000))
                so = lf.read()
        except OSError:
            so = b""
        if os.path.exists(out):
            reports.append(json.load(open(out)))
        else:
            harness_fail.append(f"shard {i} wrote no report (rc={p.returncode}): {so.decode(errors='replace')[-2000:]}")
        if p.returncode not in (0,) and os.path.exists(out):
            rep = reports[-1]
            if rep.get("harness_errors"):
                harness_fail.append(f"shard {i}: {rep['harness_errors'][0][-3000:]}")
    import shutil

    shutil.rmtree(tmp, ignore_errors=True)

    # 3. merge
    nontrivial = set()
    classes, inconclusive, skipped, known_hits, dups = {}, {}, {}, {}, {}
    samples, failures = [], {}
    evaluations = cases = 0
    phase_info = {}
    for r in reports:
        evaluations += r["evaluations"]
        cases += r["cases"]
        nontrivial.update(r["nontrivial"])
        for name, d in (("classes", classes), ("inconclusive", inconclusive), ("skipped", skipped),
                        ("known_hits", known_hits), ("dups", dups)):
            for k, v in r[name].items():
                d[k] = d.get(k, 0) + v
        for s in r["samples"]:
            if len(samples) < 4:
                samples.append(s)
        for b, rec in r["failures"].items():
            if b not in failures or rec["size"] < failures[b]["size"]:
                failures[b] = dict(rec, python_O=bool(r.get("optimize")))
        for k, v in (r.get("phase_info") or {}).items():
            if isinstance(v, (int, float)) and not isinstance(v, bool):
                phase_info[k] = phase_info.get(k, 0) + v
            else:
                phase_info[k] = v

    fail_dir = os.path.join(HERE, "failures", pid)
    for b, rec in sorted(failures.items()):
        os.makedirs(fail_dir, exist_ok=True)
        name = "".join(c if c.isalnum() or c in "-_" else "_" for c in b)[:60]
        path = os.path.join(fail_dir, f"{name}-{harness.case_hash(rec['case'])}.json")
        json.dump({"property": pid, "bucket": b, "msg": rec["msg"], "key": rec.get("key"), "case": rec["case"],
                   "detail": rec.get("detail"), "seed": seed, "tier": a.tier, **({"python_O": True} if rec.get("python_O") else {})},
                  open(path, "w"), indent=1, default=str)
        violations.append((b, os.path.relpath(path, HERE), rec["msg"]))

    for f in known["open"]:
        k = f.get("key")
        if known_hits.get(k) and not any(f["text"] in ln for ln in known_lines):
            known_lines.append(f"KNOWN-FINDING: {f['text']}")

    wall = time.monotonic() - t0
    if not a.no_evidence:
        ev = {
            "property_id": pid,
            "tier": a.tier,
            "seed": seed,
            "level": check.LEVEL,
            "coverage": {
                "evaluations": evaluations,
                "distinct_nontrivial": len(nontrivial),
                "rule": check.RULE,
                "samples": samples,
                "cases_generated": cases,
                "class_histogram": dict(sorted(classes.items())),
                "inconclusive": inconclusive,
                "outside_fragment_skipped": skipped,
                "excluded_as_known_finding": known_hits,
                "duplicate_violations_not_rereported": dups,
                "replayed_regression_cases": n_replayed,
                "shards": nsh,
                "atheris_shards": n_fuzz,
                "python_O_shards": opt_shards,
                "shard_seconds": secs,
                "tawazi_src": os.environ.get("TAWAZI_SRC", "/repo"),
                **({"exhaustive": True} if phase_info.get("exhaustive") else {}),
                "phases": phase_info,
            },
            "assumptions": check.ASSUMPTIONS,
            "wall_s": round(wall, 2),
            "violations": len(violations),
        }
        os.makedirs(os.path.join(HERE, "evidence"), exist_ok=True)
        json.dump(ev, open(os.path.join(HERE, "evidence", f"{pid}.json"), "w"), indent=1, default=str)

    for ln in known_lines:
        print(ln)
    print(f"{pid} {a.tier} seed={seed}: cases={cases} evaluations={evaluations} nontrivial={len(nontrivial)} "
          f"known={sum(known_hits.values())} inconclusive={sum(inconclusive.values())} wall={wall:.1f}s")
    if harness_fail:
        for h in harness_fail:
            print("HARNESS-ERROR:", h)
        return 2
    if violations:
        for b, path, msg in violations:
            print(f"VIOLATION property={pid} replay={path}")
            print(f"  rule={b}: {msg[:500]}")
        return 1
    if evaluations == 0 or len(nontrivial) < 2:
        print("HARNESS-ERROR: the run generated no (non-trivial) cases")
        return 2
    return 0


def replay_one(check, pid, path) -> int:
    rec = json.load(open(path))
    if isinstance(rec, dict) and rec.get("python_O") and not sys.flags.optimize:
        # found by the shard that runs under python -O: replay it there
        os.execve(PY, [PY, "-O"] + sys.argv, dict(os.environ, PYTHONHASHSEED="0"))
    case = rec["case"] if isinstance(rec, dict) and "case" in rec else rec
    from vlib import harness

    known = {f.get("key") for f in harness.parse_known(pid)["open"]}
    res = check.run_case(case)
    bad = [v for v in res.violations if not (v.key is not None and v.key in known)]
    for v in res.violations:
        tag = "VIOLATION" if v in bad else "KNOWN-FINDING:"
        if v in bad:
            print(f"VIOLATION property={pid} replay={path}")
            print(f"  rule={v.bucket}: {v.msg}")
        else:
            print(f"KNOWN-FINDING: property={pid} key={v.key} {v.msg}")
    if not res.violations:
        print(f"{pid}: replay of {path} passes" + (f" (inconclusive: {res.inconclusive})" if res.inconclusive else ""))
    return 1 if bad else 0


if __name__ == "__main__":
    sys.exit(main())
