#!/bin/sh
# Offline setup: the checks need /venv/bin/python with tawazi's dependencies and hypothesis.
set -e
cd "$(dirname "$0")"
if ! /venv/bin/python -c "import hypothesis" 2>/dev/null; then
    /venv/bin/pip install --no-index --find-links /opt/veriftools/wheels hypothesis >/dev/null
fi
/venv/bin/python - <<'PY'
import sys
sys.path.insert(0, "/verif")
import hypothesis, networkx, yaml  # noqa
from vlib import env  # imports tawazi from /repo with the interposers installed
print("setup ok: hypothesis", hypothesis.__version__, "tawazi from", env.SRC)
PY
