#!/bin/sh
# Offline setup: the checks need /venv/bin/python with tawazi's dependencies and hypothesis.
set -e
cd "$(dirname "$0")"
if ! /venv/bin/python -c "import hypothesis" 2>/dev/null; then
    /venv/bin/pip install --no-index --find-links /opt/veriftools/wheels hypothesis >/dev/null
fi
# optional: atheris for the coverage-guided shards of the thorough tier (C01, C10, C20)
if [ ! -d .deps/atheris ]; then
    /venv/bin/pip install --no-index --find-links /opt/veriftools/wheels --target .deps atheris >/dev/null 2>&1 || echo "atheris not installed (thorough tier runs Hypothesis shards only)"
fi
/venv/bin/python - <<'PY'
import sys
sys.path.insert(0, "/verif")
import hypothesis, networkx, yaml  # noqa
from vlib import env  # imports tawazi from /repo with the interposers installed
print("setup ok: hypothesis", hypothesis.__version__, "tawazi from", env.SRC)
PY
